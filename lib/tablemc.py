"""Exhaustive TLC jobs of the table family (WriterLayout: writer state machine + reader navigation over
abstract layouts) and the systematic table shapes derived from the same parameter space."""
import json, os, random, re, shutil
import common as C

GRID = {
    "quick": [(40, 10, 2, 2, 3), (30, 8, 3, 2, 1), (30, 0, 1, 3, 3)],
    "thorough": [(90, 20, 2, 2, 3), (90, 20, 3, 2, 1), (60, 12, 1, 3, 3), (120, 0, 2, 3, 1), (80, 10, 3, 3, 3), (60, 10, 2, 4, 1), (200, 0, 4, 2, 3)],
}


def wl_cfg(maxr, maxl, kd, ki, thr, flush=True, clear=True):
    return ("SPECIFICATION Spec\nCONSTANTS\n  MaxR = %d\n  MaxL = %d\n  Kd = %d\n  Ki = %d\n  Threshold = %d\n  FixFlushInLoop = %s\n  FixClearIndex = %s\n"
            "CHECK_DEADLOCK FALSE\nINVARIANTS\n  DecodeIsInput\n  SeekIsSuffix\n  IndexComplete\n" %
            (maxr, maxl, kd, ki, thr, "TRUE" if flush else "FALSE", "TRUE" if clear else "FALSE"))


def exhaustive(pid, tier, sc):
    if pid not in ("C02", "C14", "C01"):
        return []
    res = []
    grid = GRID[tier] if pid != "C01" else GRID[tier][:1]
    for i, (maxr, maxl, kd, ki, thr) in enumerate(grid):
        sd = os.path.join(sc, "wl-%d" % i)
        shutil.copytree(os.path.join(C.VERIF, "spec"), sd)
        with open(os.path.join(sd, "wl.cfg"), "w") as f:
            f.write(wl_cfg(maxr, maxl, kd, ki, thr))
        r = C.tlc(sd, "WriterLayout", "wl.cfg", sc, workers=4, timeout=300 if tier == "quick" else 2400, heap="6g")
        r["name"] = "WriterLayout(MaxR=%d,MaxL=%d,Kd=%d,Ki=%d,Threshold=%d)" % (maxr, maxl, kd, ki, thr)
        res.append(r)
        shutil.rmtree(sd, ignore_errors=True)
    return res


def shape_cases(pid, tier, sc, seed):
    """Record-count sweep with uniform records and small blocks (the parameter space of WriterLayout made
    concrete): every count n yields its own block/index shape - 0..3 index levels, multi-block top
    levels, with and without a following log section and object index."""
    if pid not in ("C02", "C14", "C01", "C11"):
        return []
    rng = random.Random(seed * 31 + 5)
    cases = []
    counts = list(range(0, 41)) + [48, 57, 64, 81, 100, 121, 150, 200, 260, 340] if tier == "quick" else list(range(0, 130)) + list(range(130, 700, 17))
    if tier == "quick":
        counts = rng.sample(counts, 24)
    for n in counts:
        hash_ = rng.choice(["sha1", "s256"])
        hs = 20 if hash_ == "sha1" else 32
        unaligned = rng.random() < 0.5
        nlog = rng.choice([0, 0, 3, n // 2])
        width = rng.choice([4, 4, 12, 40, 95])        # 95: index blocks hold two entries -> 4 and more index levels
        names = ["refs/heads/%s%05d" % ("w" * width, 3 * j + 1) for j in range(n)]
        pool = ["%02x" % (j % 251) * hs for j in range(max(1, rng.choice([1, 3, n // 3 + 1])))]
        refs = [{"n": nm, "i": 7, "v": ["v", rng.choice(pool), ""] if j % 5 else ["p", rng.choice(pool), rng.choice(pool)]} for j, nm in enumerate(names)]
        logs = [{"n": nm, "i": 7, "del": False, "old": "", "new": pool[0], "user": "u", "email": "e", "time": 5, "tz": 0, "msg": "m"} for nm in names[:nlog]]
        keys = set([""])
        for nm in (names if n <= 25 else rng.sample(names, 18) + names[:3] + names[-4:]):
            keys.update([nm, nm + "0", nm[:-1], nm[:-1] + chr(ord(nm[-1]) - 1)])
        keys.add("refs/heads/" + "w" * width + "99999")
        keys = sorted(keys)
        seeklogs = [{"n": nm, "i": i} for nm in (names[:nlog][:4] + names[:nlog][-3:]) for i in (0, 6, 7, 8)] + [{"n": "", "i": 7}, {"n": "zzz", "i": 7}]
        blocksize = rng.choice([128, 160, 256]) if hash_ == "sha1" and width <= 12 else rng.choice([256, 320, 512])
        if width >= 95:
            blocksize = 256
        cases.append({"id": "shape-%s-%d" % (pid.lower(), n), "blocksize": blocksize, "restart": rng.choice([1, 2, 16]), "unaligned": unaligned,
                      "skipindex": rng.random() < 0.3, "hash": hash_, "exact": False, "min": 7, "max": 7, "refs": refs, "logs": logs,
                      "seekrefs": keys if len(keys) <= 60 else rng.sample(keys, 60), "seeklogs": seeklogs,
                      "oids": sorted(set(pool))[:6] + ["ab" * hs], "universe": [], "layout": True})
    if pid in ("C11", "C14"):
        # an object id referenced from so many ref blocks that its position list does not fit a block: the writer omits the list
        for hash_, hs, bs in (("sha1", 20, 128), ("s256", 32, 256)):
            names = ["refs/heads/t%05d" % j for j in range(420)]
            one = "5a" * hs
            other = "6b" * hs
            refs = [{"n": nm, "i": 3, "v": ["v", one, ""] if j % 7 else ["p", other, one]} for j, nm in enumerate(names)]
            cases.append({"id": "shape-%s-truncated-%s" % (pid.lower(), hash_), "blocksize": bs, "restart": 16, "unaligned": False, "skipindex": False,
                          "hash": hash_, "exact": False, "min": 3, "max": 3, "refs": refs, "logs": [], "seekrefs": ["", names[200]], "seeklogs": [],
                          "oids": [one, other, "00" * hs], "universe": [], "layout": True})
    return cases
