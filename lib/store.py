"""Store family (C03 C07 C09-sequential C11-stack C12 C13): history generation, execution, validation."""
import json, os, random, re, shutil, subprocess, concurrent.futures as cf
import common as C

NAMES_PLAIN = ["refs/heads/a", "refs/heads/b", "refs/heads/c", "refs/heads/main", "refs/tags/v1", "refs/tags/v2", "HEAD",
               "refs/heads/a-1", "refs/heads/a0", "refs/x", "refs/heads/b/x", "refs/heads/zz"]
NAMES_CONFLICT = ["a", "a/b", "a/b/c", "a/c", "b", "b/c", "a//b", "a/./b", "a/..", "a/", "ab", "a-b"]
OIDS = ["A", "B", "C", "D"]


def rand_cfg(rng, exact=None):
    return {"blocksize": rng.choice([0, 0, 64 + rng.randint(0, 3) * 32, 256, 512, 4096]) if True else 0,
            "restart": rng.choice([0, 1, 2, 3, 16]), "unaligned": rng.random() < 0.3, "skipindex": rng.random() < 0.3,
            "hash": rng.choice(["sha1", "s256"]), "exact": rng.random() < 0.5 if exact is None else exact, "skipnamecheck": False}


def fix_cfg(cfg):
    # records must fit a block: a ref with two sha-256 hashes and a 20-byte name needs ~100 bytes, a log ~150
    if cfg["blocksize"] and cfg["blocksize"] < 256:
        cfg["blocksize"] = 256 if cfg["hash"] == "s256" else max(cfg["blocksize"], 192)
    return cfg


def rand_val(rng, names):
    x = rng.random()
    if x < 0.2:
        return ["d", "", ""]
    if x < 0.65:
        return ["v", rng.choice(OIDS), ""]
    if x < 0.85:
        a, b = rng.sample(OIDS, 2)
        return ["p", a, b]
    return ["s", rng.choice(names), ""]


def rand_log(rng, name, idxs, exact):
    """a new entry at the table's index, or a deletion / rewrite of an older entry"""
    if idxs and rng.random() < 0.3:
        return {"n": name, "i": rng.choice(idxs), "del": True}
    msg = rng.choice(["", "commit: x", "msg with trailing newline\n", "  padded  "])
    if exact and rng.random() < 0.3:
        msg = rng.choice(["two\nlines", "two\nlines\n", "", "\n"])
    l = {"n": name, "i": 0, "del": False, "old": rng.choice(["", "A", "B"]), "new": rng.choice(["", "B", "C"]),
         "user": rng.choice(["", "u"]), "email": rng.choice(["", "u@e"]), "time": rng.choice([0, 5, 10, 15, 20]), "tz": rng.choice([0, 60, -120]), "msg": msg}
    return l


class HistGen:
    def __init__(self, rng, names, nh=1, cfg=None, logs=True):
        self.rng, self.names, self.nh = rng, names, nh
        self.cfg = fix_cfg(cfg or rand_cfg(rng))
        self.steps = []
        self.logidx = {}     # name -> list of update indices with entries (approximate: assumes adds succeed)
        self.nextidx = 1
        self.logs = logs
        self.ntab = 0

    def part(self, maxrefs=3):
        rng = self.rng
        refs = [{"n": n, "v": rand_val(rng, self.names)} for n in sorted(rng.sample(self.names, rng.randint(0, min(maxrefs, len(self.names)))))]
        logs = []
        if self.logs:
            for n in rng.sample(self.names, rng.randint(0, min(2, len(self.names)))):
                l = rand_log(rng, n, self.logidx.get(n, []), self.cfg["exact"])
                logs.append(l)
            # one key per (name, idx)
            seen, uniq = set(), []
            for l in logs:
                key = (l["n"], l["i"])
                if key not in seen:
                    seen.add(key)
                    uniq.append(l)
            logs = uniq
        return {"refs": refs, "logs": logs}

    def add(self, h=1, multi=False, auto=False, nparts=1, part=None):
        parts = [part or self.part() for _ in range(nparts)]
        self.steps.append({"op": "add", "h": h, "parts": parts, "multi": multi, "auto": auto})
        for i, p in enumerate(parts):
            for l in p["logs"]:
                if not l["del"]:
                    self.logidx.setdefault(l["n"], []).append(self.nextidx + i)
        self.nextidx += nparts
        self.ntab += 1

    def observe(self, h=1, tag="C07", raw=True, after="add"):
        self.steps.append({"op": "disk", "h": h, "after": after})
        self.steps.append({"op": "view", "h": h, "tag": tag, "hasraw": raw})

    def history(self, hid, universe=()):
        return {"id": hid, "nh": self.nh, "cfg": self.cfg, "universe": list(universe), "steps": self.steps}


def run_driver(binary, hists, workdir, nproc=16, chunk=25, timeout=900):
    chunks = [hists[i:i + chunk] for i in range(0, len(hists), chunk)]

    def one(i):
        jp = os.path.join(workdir, "hist-%d.json" % i)
        op = os.path.join(workdir, "hout-%d.json" % i)
        with open(jp, "w") as f:
            json.dump(chunks[i], f)
        p = subprocess.run([binary, jp, op], stdout=subprocess.PIPE, stderr=subprocess.STDOUT, text=True, timeout=timeout,
                           env=dict(os.environ, TMPDIR=workdir))
        if p.returncode != 0:
            raise C.Inconclusive("store driver failed (rc=%d): %s" % (p.returncode, p.stdout[-3000:]))
        with open(op) as f:
            res = json.load(f)
        os.remove(jp)
        os.remove(op)
        return res

    with cf.ThreadPoolExecutor(max_workers=nproc) as ex:
        outs = list(ex.map(one, range(len(chunks))))
    return [o for c in outs for o in c]


def validate(traces, workdir, module="TraceStore", jvms=12, chunk=25, timeout=900, debug=False):
    """returns (violations [(check, trace id, line)], rejected [(trace id, line)], stats)"""
    chunks = [traces[i:i + chunk] for i in range(0, len(traces), chunk)]
    stats = dict(states=0, generated=0, jvm_runs=len(chunks), events=sum(len(t["events"]) for t in traces))

    def one(i):
        sd = os.path.join(workdir, "svalspec-%d" % i)
        shutil.copytree(os.path.join(C.VERIF, "spec"), sd)
        with open(os.path.join(sd, "traces.json"), "w") as f:
            json.dump(chunks[i], f)
        with open(os.path.join(sd, "val.cfg"), "w") as f:
            f.write('SPECIFICATION TSpec\nCONSTANT TraceFile = "traces.json"\nCONSTANT Debug = %s\nCHECK_DEADLOCK TRUE\nINVARIANTS\n  T_All\n' % ("TRUE" if debug else "FALSE"))
        r = C.tlc(sd, module, "val.cfg", workdir, workers=2, timeout=timeout, heap="3g", cont=True, extra=["-difftrace"], small=True)
        shutil.rmtree(sd, ignore_errors=True)
        return r

    with cf.ThreadPoolExecutor(max_workers=jvms) as ex:
        results = list(ex.map(one, range(len(chunks))))
    viols, rej = [], []
    for i, r in enumerate(results):
        out = r["out"]
        if debug:
            flt = os.environ.get("VERIF_DEBUG_FILTER", "")
            idx = [m.start() for m in re.finditer(r'<<\s*"MISMATCH",\s*"' + flt, out)]
            for a in idx[:12]:
                b = out.find('<<"VIOL"', a)
                b = b if b > a else out.find('<< "VIOL"', a)
                print(out[a:b if b > a else a + 6000][:6000])
        if r["rc"] == -9 and '"VIOL"' not in out:
            raise C.Inconclusive("TLC trace validation timed out")
        if r["rc"] == -9:
            stats["partial"] = True     # so many violations that TLC did not finish printing them: use what it reported
        stats["states"] += r["distinct"]
        stats["generated"] += r["generated"]
        for m in re.finditer(r'<<\s*"VIOL",\s*\{([^}]*)\},\s*"([^"]*)",\s*(\d+)\s*>>', out):
            for name in re.findall(r'"(\w+)"', m.group(1)):
                viols.append((name, m.group(2), int(m.group(3))))
        if "Deadlock reached" in out:
            for blk in out.split("Error: Deadlock reached.")[1:]:
                mt = re.search(r"/\\ tr = (\d+)", blk)
                ls = re.findall(r"/\\ l = (\d+)", blk)
                tid = chunks[i][int(mt.group(1)) - 1]["id"] if mt else "?"
                rej.append((tid, int(ls[-1]) if ls else 0))
        elif "Model checking completed" not in out and "Finished in" not in out or re.search(r"Error: (?!Invariant|Deadlock|The behavior)", out):
            if re.search(r"TLC threw|Parsing or semantic|was not|Error: Evaluating|attempted to|Exception", out) or not viols:
                raise C.Inconclusive("TLC failed on trace validation:\n" + out[-4000:])
    if not viols and any("is violated" in r["out"] for r in results):
        raise C.Inconclusive("TLC reports an invariant violation that the result parser did not understand")
    return sorted(set(viols)), rej, stats
