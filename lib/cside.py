"""The C implementation (/repo/c) bound to the same specification: build, drive, convert to TraceTable events."""
import json, os, subprocess, binascii
import common as C

CSRC = ["basics", "block", "blocksource", "git-compat-util", "error", "iter", "merged", "pq", "publicbasics", "reader", "record",
        "refname", "generic", "strbuf", "stack", "tree", "writer"]


def build(sc):
    cdir = os.path.join(C.REPO, "c")
    out = os.path.join(sc, "cdriver")
    srcs = [os.path.join(cdir, f + ".c") for f in CSRC if os.path.exists(os.path.join(cdir, f + ".c"))]
    if len(srcs) < 10:
        raise C.Inconclusive("C sources not found under %s" % cdir)
    cmd = ["gcc", "-O1", "-g", "-I", cdir, "-I", os.path.join(cdir, "include"), "-o", out, os.path.join(C.VERIF, "harness", "cdriver", "cdriver.c")] + srcs + ["-lz"]
    p = subprocess.run(cmd, stdout=subprocess.PIPE, stderr=subprocess.STDOUT, text=True, timeout=600)
    if p.returncode != 0:
        raise C.Inconclusive("C driver does not build against the working tree:\n" + p.stdout[-3000:])
    return out


def hx(s):
    return binascii.hexlify(s.encode("utf-8", "surrogateescape")).decode()


def unhx(h):
    return binascii.unhexlify(h).decode("utf-8", "surrogateescape")


def input_text(case):
    L = ["\t".join(["opt", str(case["blocksize"]), str(case["restart"]), "1" if case["unaligned"] else "0", "1" if case["skipindex"] else "0",
                    case["hash"], "1" if case["exact"] else "0", str(case["min"]), str(case["max"])])]
    for r in case["refs"]:
        a, b = r["v"][1], r["v"][2]
        if r["v"][0] == "s":
            a = hx(a)
        L.append("\t".join(["ref", hx(r["n"]), str(r["i"]), r["v"][0], a, b]))
    for l in case["logs"]:
        if l.get("del"):
            L.append("\t".join(["log", hx(l["n"]), str(l["i"]), "1", "", "", "", "", "0", "0", ""]))
        else:
            L.append("\t".join(["log", hx(l["n"]), str(l["i"]), "0", l["old"], l["new"], hx(l["user"]), hx(l["email"]), str(l["time"]), str(l["tz"]), hx(l["msg"])]))
    for k in case["seekrefs"]:
        L.append("\t".join(["seekref", hx(k)]))
    for s in case["seeklogs"]:
        L.append("\t".join(["seeklog", hx(s["n"]), str(s["i"])]))
    for o in case["oids"]:
        L.append("\t".join(["refsfor", o]))
    return "\n".join(L) + "\n"


def go_quote(s):
    out = ['"']
    for ch in s:
        o = ord(ch)
        if ch == '"':
            out.append('\\"')
        elif ch == "\\":
            out.append("\\\\")
        elif ch == "\n":
            out.append("\\n")
        elif ch == "\t":
            out.append("\\t")
        elif ch == "\r":
            out.append("\\r")
        elif 32 <= o < 127:
            out.append(ch)
        else:
            out.append("\\x%02x" % o)
    out.append('"')
    return "".join(out)


def ranks(case):
    names = set(case.get("universe", []))
    names.update(r["n"] for r in case["refs"])
    names.update(l["n"] for l in case["logs"])
    names.update(case["seekrefs"])
    names.update(s["n"] for s in case["seeklogs"])
    return {n: i + 1 for i, n in enumerate(sorted(names))}


def conv_ref(rk, r):
    name = unhx(r[0])
    kind, a, b = r[2], r[3], r[4]
    if kind == "s":
        a = unhx(a)
    return [rk.get(name, 0), r[1], [kind, a, b]]


def conv_log(rk, l):
    name = unhx(l[0])
    if l[2]:
        return [rk.get(name, 0), l[1], "", 0]
    dig = "%s|%s|%s|%s|%d|%d|%s" % (l[3], l[4], unhx(l[5]), unhx(l[6]), l[7], l[8], go_quote(unhx(l[9])))
    return [rk.get(name, 0), l[1], dig, l[7]]


CAP = 12


def cap(lst):
    return lst[:CAP], len(lst), (lst[-1:] if lst else [])


def read_events(case, lines):
    """C reader output -> TraceTable events"""
    rk = ranks(case)
    evs = []
    for ln in lines:
        if not ln.strip():
            continue
        e = json.loads(ln)
        if e["op"] == "open":
            evs.append({"op": "scan", "refs": [], "logs": [], "err": "C: cannot open table: %d" % e["err"], "min": 0, "max": 0, "reuse": ""})
        elif e["op"] == "scan":
            err = "" if e["referr"] == 0 and e["logerr"] == 0 else "C: scan error %d/%d" % (e["referr"], e["logerr"])
            evs.append({"op": "scan", "refs": [conv_ref(rk, r) for r in e["refs"]], "logs": [conv_log(rk, l) for l in e["logs"]["l"]],
                        "err": err, "min": e["min"], "max": e["max"], "reuse": ""})
        elif e["op"] == "seekref":
            name = unhx(e["name"])
            refs = [conv_ref(rk, r) for r in e["refs"]]
            c, n, last = cap(refs)
            hit = [refs[0]] if refs and refs[0][0] == rk.get(name, -1) else []
            evs.append({"op": "seekref", "k": rk.get(name, 0), "refs": c, "n": n, "last": last, "read": hit, "err": "" if e["err"] >= 0 else "C: %d" % e["err"]})
        elif e["op"] == "seeklog":
            name = unhx(e["name"])
            logs = [conv_log(rk, l) for l in e["logs"]]
            c, n, last = cap(logs)
            hit = [logs[0]] if logs and logs[0][0] == rk.get(name, -1) else []
            evs.append({"op": "seeklog", "k": rk.get(name, 0), "i": e["i"], "logs": c, "n": n, "last": last, "read": hit, "err": "" if e["err"] >= 0 else "C: %d" % e["err"]})
        elif e["op"] == "refsfor":
            evs.append({"op": "refsfor", "oid": e["oid"], "refs": [conv_ref(rk, r) for r in e["refs"]], "err": "" if e["err"] >= 0 else "C: %d" % e["err"]})
    return evs


def run(cdrv, mode, case, infile, reffile, timeout=120):
    with open(infile, "w") as f:
        f.write(input_text(case))
    p = subprocess.run([cdrv, mode, infile, reffile], stdout=subprocess.PIPE, stderr=subprocess.PIPE, text=True, timeout=timeout)
    return p.returncode, p.stdout.split("\n"), p.stderr


# ----------------------------------------------------------------------------- stack directories

def opt_line(cfg):
    return "\t".join(["opt", str(cfg["blocksize"]), str(cfg["restart"]), "1" if cfg["unaligned"] else "0", "1" if cfg["skipindex"] else "0",
                      cfg["hash"], "1" if cfg["exact"] else "0", "0", "0"])


def hexhash_tok(tok, hs):
    """the drivers of the store family use short tokens for hashes: token bytes padded with zeros"""
    if tok == "":
        return ""
    b = tok.encode("latin-1")[:hs]
    return binascii.hexlify(b + bytes(hs - len(b))).decode()


def stack_input(history, with_txns):
    """in.txt for `cdriver stackread|stackwrite`: the configuration and (for stackwrite) the transactions of the history"""
    cfg = history["cfg"]
    hs = 20 if cfg["hash"] == "sha1" else 32
    L = [opt_line(cfg)]
    if with_txns:
        for s in history["steps"]:
            if s["op"] == "add":
                L.append("txn")
                p = s["parts"][0]
                for r in sorted(p["refs"], key=lambda r: r["n"]):
                    k, a, b = r["v"]
                    if k == "s":
                        a = hx(a)
                    else:
                        a, b = hexhash_tok(a, hs), hexhash_tok(b, hs)
                    L.append("\t".join(["ref", hx(r["n"]), "0", k, a, b]))
                for l in sorted(p["logs"], key=lambda l: (l["n"], -(l["i"] or 10 ** 9))):
                    if l.get("del"):
                        L.append("\t".join(["log", hx(l["n"]), str(l["i"]), "1", "", "", "", "", "0", "0", ""]))
                    else:
                        L.append("\t".join(["log", hx(l["n"]), str(l["i"]), "0", hexhash_tok(l["old"], hs), hexhash_tok(l["new"], hs), hx(l["user"]), hx(l["email"]),
                                            str(l["time"]), str(l["tz"]), hx(l["msg"])]))
                L.append("commit")
            elif s["op"] == "compact":
                L.append("compactall")
    return "\n".join(L) + "\n"


def tok(hexs):
    return binascii.unhexlify(hexs).rstrip(b"\x00").decode("latin-1") if hexs else ""


def stack_view_event(names_rank, line, h, tag="C15"):
    """the final view printed by cdriver stack* -> a TraceStore view event (store-family vocabulary: hash tokens, digests)"""
    e = json.loads(line)
    refs, logs = [], []
    for r in e["refs"]:
        name = unhx(r[0])
        kind, a, b = r[2], r[3], r[4]
        if kind == "s":
            a = unhx(a)
        elif kind in ("v", "p"):
            a, b = tok(a), tok(b)
        refs.append([names_rank.get(name, 0), r[1], [kind, a, b]])
    for l in e["logs"]["l"]:
        name = unhx(l[0])
        if l[2]:
            logs.append([names_rank.get(name, 0), l[1], "", 0])
        else:
            dig = "%s|%s|%s|%s|%d|%d|%s" % (l[3], l[4], unhx(l[5]), unhx(l[6]), l[7], l[8], go_quote(unhx(l[9])))
            logs.append([names_rank.get(name, 0), l[1], dig, l[7]])
    ok = e["referr"] == 0 and e["logerr"] == 0
    return {"op": "view", "h": h, "tag": tag, "hasraw": False, "interleave": "", "ok": ok, "refs": refs, "logs": logs, "rawrefs": [], "rawlogs": [],
            "err": "" if ok else "C: %d/%d" % (e["referr"], e["logerr"])}
