// drvstore executes sequential histories (several handles, one call at a time)
// on the real stack code and records, for every step, the outcome in the
// vocabulary of spec/Store.tla.
//
//	drvstore <histories.json> <out.json>
package main

import (
	"encoding/json"
	"fmt"
	"math"
	realos "os"
	"path/filepath"
	"sort"
	"strings"

	"verifwork/fmtdec"
	"verifwork/reftable"
	vos "verifwork/vos"
)

type RefIn struct {
	N string    `json:"n"`
	V [3]string `json:"v"` // kind d|v|p|s, a, b
}

type LogIn struct {
	N     string `json:"n"`
	I     uint64 `json:"i"` // 0: the table's own update index
	Del   bool   `json:"del"`
	Old   string `json:"old"`
	New   string `json:"new"`
	User  string `json:"user"`
	Email string `json:"email"`
	Time  uint64 `json:"time"`
	TZ    int16  `json:"tz"`
	Msg   string `json:"msg"`
}

type Part struct {
	Refs []RefIn `json:"refs"`
	Logs []LogIn `json:"logs"`
}

type Expiry struct {
	Time uint64 `json:"time"`
	Min  uint64 `json:"min"`
	Max  uint64 `json:"max"`
}

type Step struct {
	Op     string  `json:"op"`
	H      int     `json:"h"`
	Parts  []Part  `json:"parts"`
	Multi  bool    `json:"multi"`
	Auto   bool    `json:"auto"`
	First  int     `json:"first"`
	Last   int     `json:"last"`
	All    bool    `json:"all"`
	Expiry *Expiry `json:"expiry"`
	N      string  `json:"n"`
	I      uint64  `json:"i"`
	Raw    bool    `json:"raw"`
	Oid    string  `json:"oid"`
	Tag    string  `json:"tag"`
	After  string  `json:"after"`
	HasRaw bool    `json:"hasraw"`
	OldIdx bool    `json:"oldidx"`
	GoOn   bool    `json:"goon"` // multi-table Addition: go on after a refused table and commit
}

type Cfg struct {
	BlockSize uint32 `json:"blocksize"`
	Restart   int    `json:"restart"`
	Unaligned bool   `json:"unaligned"`
	SkipIndex bool   `json:"skipindex"`
	Hash      string `json:"hash"`
	Exact     bool   `json:"exact"`
	SkipName  bool   `json:"skipnamecheck"`
}

type History struct {
	ID    string   `json:"id"`
	NH    int      `json:"nh"`
	Cfg   Cfg      `json:"cfg"`
	Names []string `json:"universe"` // extra names (seek keys) that take part in the ranking
	Dir   string   `json:"dir"`      // use (and keep) this directory instead of a temporary one
	Steps []Step   `json:"steps"`
}

type Out struct {
	ID     string                   `json:"id"`
	NH     int                      `json:"nh"`
	Names  [][]string               `json:"names"` // rank (1-based) -> components
	Strs   []string                 `json:"strs"`  // rank -> name
	Events []map[string]interface{} `json:"events"`
}

type runner struct {
	h       History
	dir     string
	cfg     reftable.Config
	hs      int
	rank    map[string]int
	st      map[int]*reftable.Stack
	lastIdx map[int]uint64
}

func (r *runner) bytesOf(tok string) []byte {
	if tok == "" {
		return nil
	}
	b := make([]byte, r.hs)
	copy(b, tok)
	return b
}

func tokOf(b []byte) string { return strings.TrimRight(string(b), "\x00") }

func (r *runner) k(name string) int { return r.rank[name] } // 0 if the name is not in the universe

func refVal(kind int, value, peeled []byte, target string) [3]string {
	switch {
	case target != "" || kind == 3:
		return [3]string{"s", target, ""}
	case len(peeled) > 0 || kind == 2:
		return [3]string{"p", tokOf(value), tokOf(peeled)}
	case len(value) > 0 || kind == 1:
		return [3]string{"v", tokOf(value), ""}
	}
	return [3]string{"d", "", ""}
}

func digest(old, new []byte, user, email string, time uint64, tz int16, msg string) string {
	return fmt.Sprintf("%x|%x|%s|%s|%d|%d|%q", old, new, user, email, time, tz, msg)
}

type refOut = [3]interface{}
type logOut = [4]interface{}

func (r *runner) refFromRec(rec *reftable.RefRecord) refOut {
	return refOut{r.k(rec.RefName), rec.UpdateIndex, refVal(-1, rec.Value, rec.TargetValue, rec.Target)}
}

func (r *runner) logFromRec(rec *reftable.LogRecord) logOut {
	if rec.IsDeletion() {
		return logOut{r.k(rec.RefName), rec.UpdateIndex, "", 0}
	}
	return logOut{r.k(rec.RefName), rec.UpdateIndex, digest(rec.Old, rec.New, rec.Name, rec.Email, rec.Time, rec.TZOffset, rec.Message), rec.Time}
}

// what the specification expects a written log record to read back as (Norm)
func (r *runner) normLog(l LogIn, idx uint64) logOut {
	if l.I != 0 {
		idx = l.I
	}
	if l.Del || (l.Old == "" && l.New == "" && l.User == "" && l.Email == "" && l.Time == 0 && l.TZ == 0 && l.Msg == "") {
		// a record without any information IS a deletion record (LogRecord.IsDeletion)
		return logOut{r.k(l.N), idx, "", 0}
	}
	zero := make([]byte, r.hs)
	o, n := r.bytesOf(l.Old), r.bytesOf(l.New)
	if o == nil {
		o = zero
	}
	if n == nil {
		n = zero
	}
	msg := l.Msg
	if !r.cfg.ExactLogMessage {
		msg = strings.TrimSpace(msg) + "\n"
	}
	return logOut{r.k(l.N), idx, digest(o, n, l.User, l.Email, l.Time, l.TZ, msg), l.Time}
}

func (r *runner) writer(p Part, idx uint64) func(w *reftable.Writer) error {
	return func(w *reftable.Writer) error {
		refs := append([]RefIn{}, p.Refs...)
		sort.Slice(refs, func(i, j int) bool { return refs[i].N < refs[j].N })
		logs := append([]LogIn{}, p.Logs...)
		for i := range logs {
			if logs[i].I == 0 {
				logs[i].I = idx
			}
		}
		sort.Slice(logs, func(i, j int) bool {
			if logs[i].N != logs[j].N {
				return logs[i].N < logs[j].N
			}
			return logs[i].I > logs[j].I
		})
		w.SetLimits(idx, idx)
		for _, x := range refs {
			rec := reftable.RefRecord{RefName: x.N, UpdateIndex: idx}
			switch x.V[0] {
			case "v":
				rec.Value = r.bytesOf(x.V[1])
			case "p":
				rec.Value = r.bytesOf(x.V[1])
				rec.TargetValue = r.bytesOf(x.V[2])
			case "s":
				rec.Target = x.V[1]
			}
			if err := w.AddRef(&rec); err != nil {
				return err
			}
		}
		for _, x := range logs {
			rec := reftable.LogRecord{RefName: x.N, UpdateIndex: x.I}
			if !x.Del {
				rec.Old, rec.New = r.bytesOf(x.Old), r.bytesOf(x.New)
				rec.Name, rec.Email, rec.Time, rec.TZOffset, rec.Message = x.User, x.Email, x.Time, x.TZ, x.Msg
			}
			if err := w.AddLog(&rec); err != nil {
				return err
			}
		}
		return nil
	}
}

func classify(err error) string {
	switch {
	case err == nil:
		return "ok"
	case err == reftable.ErrLockFailure:
		return "lock"
	}
	s := err.Error()
	if strings.Contains(s, "existing ref") || strings.Contains(s, "invalid name") {
		return "rejected"
	}
	return "other"
}

// residue counts what is in the directory besides tables.list and *.ref files, and the *.ref files.
func (r *runner) residue() map[string]int {
	res := map[string]int{"locks": 0, "tmps": 0, "refs": 0, "others": 0}
	es, err := realos.ReadDir(r.dir)
	if err != nil {
		return res
	}
	for _, e := range es {
		n := e.Name()
		switch {
		case n == "tables.list":
		case strings.HasSuffix(n, ".lock"):
			res["locks"]++
		case strings.HasSuffix(n, ".reftmp"):
			res["tmps"]++
		case strings.HasSuffix(n, ".ref"):
			res["refs"]++
		default:
			res["others"]++
		}
	}
	return res
}

// decodeDir reads tables.list and decodes every listed table independently.
func (r *runner) decodeDir(full bool) (shape [][2]uint64, tables []map[string]interface{}, problem string) {
	shape = [][2]uint64{}
	tables = []map[string]interface{}{}
	data, err := realos.ReadFile(filepath.Join(r.dir, "tables.list"))
	if err != nil {
		return
	}
	for _, name := range strings.Split(string(data), "\n") {
		if name == "" {
			continue
		}
		b, err := realos.ReadFile(filepath.Join(r.dir, name))
		if err != nil {
			problem = "listed table missing: " + name
			shape = append(shape, [2]uint64{0, 0})
			continue
		}
		f, err := fmtdec.Parse(b)
		if err != nil {
			problem = "listed table undecodable: " + err.Error()
			shape = append(shape, [2]uint64{0, 0})
			continue
		}
		if len(f.Problems) > 0 {
			problem = "listed table malformed: " + f.Problems[0]
		}
		shape = append(shape, [2]uint64{f.Min, f.Max})
		if full {
			refs, logs := f.Records()
			ro, lo := []refOut{}, []logOut{}
			for _, x := range refs {
				ro = append(ro, refOut{r.k(x.Name), x.Idx, refVal(x.Kind, x.Value, x.Peeled, x.Target)})
			}
			for _, x := range logs {
				if x.Del {
					lo = append(lo, logOut{r.k(x.Name), x.Idx, "", 0})
				} else {
					lo = append(lo, logOut{r.k(x.Name), x.Idx, digest(x.Old, x.New, x.User, x.Email, x.Time, x.TZ, x.Message), x.Time})
				}
			}
			tables = append(tables, map[string]interface{}{"min": f.Min, "max": f.Max, "refs": ro, "logs": lo})
		}
	}
	return
}

func scanRefs(r *runner, it *reftable.Iterator) ([]refOut, error) {
	out := []refOut{}
	for {
		var rec reftable.RefRecord
		ok, err := it.NextRef(&rec)
		if err != nil {
			return out, err
		}
		if !ok {
			// the end is stable: asking again neither yields a record nor fails
			for k := 0; k < 2; k++ {
				if ok2, err2 := it.NextRef(&rec); ok2 || err2 != nil {
					return out, fmt.Errorf("iterator yields after its end: ok=%v err=%v", ok2, err2)
				}
			}
			return out, nil
		}
		out = append(out, r.refFromRec(&rec))
		if len(out) > 100000 {
			return out, fmt.Errorf("iterator does not end")
		}
	}
}

func scanLogs(r *runner, it *reftable.Iterator) ([]logOut, error) {
	out := []logOut{}
	for {
		var rec reftable.LogRecord
		ok, err := it.NextLog(&rec)
		if err != nil {
			return out, err
		}
		if !ok {
			// the end is stable: asking again neither yields a record nor fails
			for k := 0; k < 2; k++ {
				if ok2, err2 := it.NextLog(&rec); ok2 || err2 != nil {
					return out, fmt.Errorf("iterator yields after its end: ok=%v err=%v", ok2, err2)
				}
			}
			return out, nil
		}
		out = append(out, r.logFromRec(&rec))
		if len(out) > 100000 {
			return out, fmt.Errorf("iterator does not end")
		}
	}
}

func (r *runner) table(st *reftable.Stack, raw bool) (reftable.Table, error) {
	if !raw {
		return st.Merged(), nil
	}
	return reftable.VerifRawMerged(st)
}

// faultyReads repeats the full walk of the view with the k-th positional read of a table file failing (k = 1, 2, ... until a
// walk needs fewer reads): a read that suffers an I/O error must report an error - or, if it did not need the data, give the
// same answer - never a different answer.  Returns "" or a description of the first wrong answer.
func (r *runner) faultyReads(tab reftable.Table, refs []refOut, logs []logOut) (bad string) {
	defer vos.SetReadFault(0)
	defer func() {
		if p := recover(); p != nil {
			bad = fmt.Sprint("panic under an injected read error: ", p)
		}
	}()
	want, _ := json.Marshal([]interface{}{refs, logs})
	for k := int64(1); k <= 60; k++ {
		vos.SetReadFault(k)
		var gr []refOut
		var gl []logOut
		it, err := tab.SeekRef("")
		if err == nil {
			gr, err = scanRefs(r, it)
		}
		if err == nil {
			it, err = tab.SeekLog("", math.MaxUint64)
		}
		if err == nil {
			gl, err = scanLogs(r, it)
		}
		pending := vos.ReadFaultPending()
		vos.SetReadFault(0)
		if err == nil {
			if gr == nil {
				gr = []refOut{}
			}
			if gl == nil {
				gl = []logOut{}
			}
			got, _ := json.Marshal([]interface{}{gr, gl})
			if string(got) != string(want) {
				return fmt.Sprintf("read %d of the walk failed with an I/O error: no error reported, %d refs / %d logs instead of %d / %d", k, len(gr), len(gl), len(refs), len(logs))
			}
		}
		if pending {
			break
		}
	}
	return ""
}

func (r *runner) step(s Step) (ev map[string]interface{}) {
	ev = map[string]interface{}{"op": s.Op, "h": s.H}
	defer func() {
		if p := recover(); p != nil {
			ev["res"], ev["ok"], ev["err"] = "panic", false, fmt.Sprint(p)
			fill(ev)
		}
	}()
	st := r.st[s.H]
	if st == nil && s.Op != "open" && s.Op != "disk" {
		ev["res"], ev["ok"], ev["err"] = "nohandle", false, "no open stack"
		fill(ev)
		return
	}
	setRes := func(err error) {
		ev["res"] = classify(err)
		if err != nil {
			ev["err"] = err.Error()
		}
	}
	switch s.Op {
	case "open":
		n, err := reftable.NewStack(r.dir, r.cfg)
		setRes(err)
		if err == nil {
			r.st[s.H] = n
		}
		ev["shape"], _, _ = r.decodeDir(false)
	case "close":
		st.Close()
		r.st[s.H] = nil
		ev["dirshape"], _, _ = r.decodeDir(false)
	case "add":
		reftable.VerifSetAutoCompact(st, s.Auto)
		idx := st.NextUpdateIndex()
		if s.OldIdx && r.lastIdx[s.H] != 0 {
			idx = r.lastIdx[s.H] // the caller retries a transaction it prepared before its handle was refreshed
		}
		r.lastIdx[s.H] = idx
		ev["idx"] = idx
		parts := []map[string]interface{}{}
		for i, p := range s.Parts {
			ro, lo := []refOut{}, []logOut{}
			for _, x := range p.Refs {
				ro = append(ro, refOut{r.k(x.N), idx + uint64(i), x.V})
			}
			for _, x := range p.Logs {
				lo = append(lo, r.normLog(x, idx+uint64(i)))
			}
			parts = append(parts, map[string]interface{}{"refs": ro, "logs": lo})
		}
		ev["parts"], ev["multi"], ev["auto"], ev["namecheck"] = parts, s.Multi, s.Auto, !r.cfg.SkipNameCheck
		var err error
		if !s.Multi {
			p := Part{}
			if len(s.Parts) > 0 {
				p = s.Parts[0]
			}
			err = st.Add(r.writer(p, idx))
		} else {
			var tr *reftable.Addition
			tr, err = st.NewAddition()
			if err == nil && s.GoOn {
				// a caller that goes on after a refused table and commits what was accepted: a refused table leaves no effect
				acc := []bool{}
				for i, p := range s.Parts {
					acc = append(acc, tr.Add(r.writer(p, idx+uint64(i))) == nil)
				}
				ev["accepted"] = acc
				err = tr.Commit()
				tr.Close()
			} else if err == nil {
				for i, p := range s.Parts {
					if err = tr.Add(r.writer(p, idx+uint64(i))); err != nil {
						break
					}
				}
				if err == nil {
					err = tr.Commit()
				}
				tr.Close()
			}
		}
		ev["goon"] = s.GoOn && s.Multi
		setRes(err)
		ev["dirshape"], _, _ = r.decodeDir(false)
		ev["residue"] = r.residue()
	case "compact":
		var e *reftable.LogExpirationConfig
		exp := Expiry{}
		if s.Expiry != nil {
			exp = *s.Expiry
			e = &reftable.LogExpirationConfig{Time: exp.Time, MinUpdateIndex: exp.Min, MaxUpdateIndex: exp.Max}
		}
		first, last := s.First, s.Last
		var err error
		if s.All {
			first, last = 0, reftable.VerifLen(st)-1
			err = st.CompactAll(e)
		} else if last < reftable.VerifLen(st) && first <= last {
			_, err = reftable.VerifCompactRange(st, first, last, e)
		}
		ev["first"], ev["last"], ev["expiry"], ev["hasexpiry"] = first, last, exp, s.Expiry != nil
		setRes(err)
		ev["dirshape"], _, _ = r.decodeDir(false)
		ev["residue"] = r.residue()
	case "clean":
		setRes(st.Clean())
		ev["dirshape"], _, _ = r.decodeDir(false)
		ev["residue"] = r.residue()
	case "disk":
		_, tabs, problem := r.decodeDir(true)
		ev["tables"], ev["after"], ev["problem"] = tabs, s.After, problem
	case "view":
		ev["tag"], ev["hasraw"] = s.Tag, s.HasRaw
		ev["ok"] = true
		ev["interleave"] = ""
		fail := func(err error) { ev["ok"], ev["err"] = false, err.Error() }
		ev["refs"], ev["logs"], ev["rawrefs"], ev["rawlogs"] = []refOut{}, []logOut{}, []refOut{}, []logOut{}
		for _, raw := range []bool{false, true} {
			if raw && !s.HasRaw {
				break
			}
			tab, err := r.table(st, raw)
			if err != nil {
				fail(err)
				break
			}
			it, err := tab.SeekRef("")
			if err != nil {
				fail(err)
				break
			}
			refs, err := scanRefs(r, it)
			if err != nil {
				fail(err)
				break
			}
			it, err = tab.SeekLog("", math.MaxUint64)
			if err != nil {
				fail(err)
				break
			}
			logs, err := scanLogs(r, it)
			if err != nil {
				fail(err)
				break
			}
			if raw {
				ev["rawrefs"], ev["rawlogs"] = refs, logs
			} else {
				ev["refs"], ev["logs"] = refs, logs
				ev["faulty"] = r.faultyReads(tab, refs, logs)
				// the same walk again, with log lookups through the same view in its middle
				it1, err := tab.SeekRef("")
				if err == nil {
					got := []refOut{}
					for n := 0; ; n++ {
						var rr reftable.RefRecord
						ok, err := it1.NextRef(&rr)
						if err != nil {
							ev["interleave"] = "ref walk interleaved with log lookups: " + err.Error()
							break
						}
						if !ok {
							break
						}
						got = append(got, r.refFromRec(&rr))
						if n%2 == 0 {
							reftable.ReadLogAt(tab, rr.RefName, math.MaxUint64)
							if it2, err := tab.SeekLog("", math.MaxUint64); err == nil {
								var lr reftable.LogRecord
								it2.NextLog(&lr)
							}
						}
						if len(got) > len(refs)+5 {
							break
						}
					}
					a, _ := json.Marshal(got)
					b, _ := json.Marshal(refs)
					if ev["interleave"] == "" && string(a) != string(b) {
						ev["interleave"] = fmt.Sprintf("ref walk interleaved with log lookups returns %d refs, plain walk %d", len(got), len(refs))
					}
				}
			}
		}
	case "seekref":
		ev["k"], ev["raw"], ev["ok"], ev["refs"] = r.k(s.N), s.Raw, true, []refOut{}
		tab, err := r.table(st, s.Raw)
		if err == nil {
			var it *reftable.Iterator
			it, err = tab.SeekRef(s.N)
			if err == nil {
				ev["refs"], err = scanRefs(r, it)
			}
		}
		if err != nil {
			ev["ok"], ev["err"] = false, err.Error()
		}
	case "seeklog":
		ev["k"], ev["i"], ev["raw"], ev["ok"], ev["logs"] = r.k(s.N), s.I, s.Raw, true, []logOut{}
		tab, err := r.table(st, s.Raw)
		if err == nil {
			var it *reftable.Iterator
			it, err = tab.SeekLog(s.N, s.I)
			if err == nil {
				ev["logs"], err = scanLogs(r, it)
			}
		}
		if err != nil {
			ev["ok"], ev["err"] = false, err.Error()
		}
	case "refsfor":
		ev["oid"], ev["ok"], ev["refs"] = s.Oid, true, []refOut{}
		it, err := st.Merged().RefsFor(r.bytesOf(s.Oid))
		if err == nil {
			ev["refs"], err = scanRefs(r, it)
		}
		if err != nil {
			ev["ok"], ev["err"] = false, err.Error()
		}
	case "reload":
		setRes(reftable.VerifReload(st))
	case "uptodate":
		ok, err := st.UpToDate()
		ev["tag"], ev["res"], ev["next"] = s.Tag, ok && err == nil, st.NextUpdateIndex()
	default:
		ev["res"], ev["err"] = "other", "unknown op"
	}
	return
}

// fill makes sure a panicking step still yields an event with every field its action reads.
func fill(ev map[string]interface{}) {
	def := map[string]interface{}{"shape": [][2]uint64{}, "dirshape": [][2]uint64{}, "parts": []int{}, "multi": false, "auto": false, "namecheck": true,
		"first": 0, "last": 0, "expiry": Expiry{}, "hasexpiry": false, "residue": map[string]int{"locks": 0, "tmps": 0, "refs": 0, "others": 0}, "tables": []int{}, "after": "", "tag": "PANIC", "hasraw": false, "interleave": "",
		"refs": []int{}, "logs": []int{}, "rawrefs": []int{}, "rawlogs": []int{}, "k": 0, "i": 0, "raw": false, "oid": "", "next": 0}
	for k, v := range def {
		if _, ok := ev[k]; !ok {
			ev[k] = v
		}
	}
}

func (r *runner) exec() Out {
	h := r.h
	out := Out{ID: h.ID, NH: h.NH, Names: [][]string{}, Strs: []string{}, Events: []map[string]interface{}{}}
	dir := h.Dir
	if dir == "" {
		var err error
		dir, err = realos.MkdirTemp("", "store-")
		if err != nil {
			panic(err)
		}
		defer realos.RemoveAll(dir)
	} else {
		realos.MkdirAll(dir, 0755)
	}
	r.dir = dir
	r.cfg = reftable.Config{BlockSize: h.Cfg.BlockSize, RestartInterval: h.Cfg.Restart, Unaligned: h.Cfg.Unaligned,
		SkipIndexObjects: h.Cfg.SkipIndex, ExactLogMessage: h.Cfg.Exact, SkipNameCheck: h.Cfg.SkipName}
	r.cfg.HashID = reftable.SHA1ID
	if h.Cfg.Hash == "s256" {
		r.cfg.HashID = reftable.SHA256ID
	}
	r.hs = r.cfg.HashID.Size()
	// the universe of names and their bytewise ranks
	set := map[string]bool{}
	for _, n := range h.Names {
		set[n] = true
	}
	for _, s := range h.Steps {
		if s.N != "" || s.Op == "seekref" || s.Op == "seeklog" {
			set[s.N] = true
		}
		for _, p := range s.Parts {
			for _, x := range p.Refs {
				set[x.N] = true
			}
			for _, x := range p.Logs {
				set[x.N] = true
			}
		}
	}
	names := []string{}
	for n := range set {
		names = append(names, n)
	}
	sort.Strings(names)
	r.rank = map[string]int{}
	for i, n := range names {
		r.rank[n] = i + 1
		out.Names = append(out.Names, strings.Split(n, "/"))
		out.Strs = append(out.Strs, n)
	}
	r.st = map[int]*reftable.Stack{}
	for _, s := range h.Steps {
		out.Events = append(out.Events, r.step(s))
	}
	for _, st := range r.st {
		if st != nil {
			st.Close()
		}
	}
	return out
}

func main() {
	if len(realos.Args) != 3 {
		fmt.Fprintln(realos.Stderr, "usage: drvstore histories.json out.json")
		realos.Exit(2)
	}
	data, err := realos.ReadFile(realos.Args[1])
	if err != nil {
		panic(err)
	}
	var hs []History
	if err := json.Unmarshal(data, &hs); err != nil {
		panic(err)
	}
	outs := []Out{}
	for _, h := range hs {
		r := &runner{h: h, lastIdx: map[int]uint64{}}
		outs = append(outs, r.exec())
	}
	b, err := json.Marshal(outs)
	if err != nil {
		panic(err)
	}
	if err := realos.WriteFile(realos.Args[2], b, 0644); err != nil {
		panic(err)
	}
}
