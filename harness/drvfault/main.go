// drvfault: fault enumeration for C18.  Valid tables are written with the real
// Writer; the independent decoder locates EVERY structural field (lengths,
// counts, offsets, types) of each file; every field is replaced by every
// member of its fault class (the footer checksum is repaired when the footer
// is touched; log blocks are re-deflated), the file is truncated at every
// block boundary +-1 and below header+footer; each damaged file is opened and
// exercised through the real reader.  Every call must return records or an
// error: a panic, a hang or an unbounded allocation/iteration is a violation.
//
//	drvfault plan <cases.json> <workdir>            -> workdir/plan.json (+ table files)
//	drvfault eval <workdir> <from> <to>             -> progress lines on stdout
package main

import (
	"bytes"
	"compress/zlib"
	"encoding/binary"
	"encoding/hex"
	"encoding/json"
	"fmt"
	"hash/crc32"
	"math"
	"math/rand"
	realos "os"
	"path/filepath"
	"runtime"
	"sort"
	"strings"

	"verifwork/fmtdec"
	"verifwork/reftable"
)

type RefIn struct {
	N string    `json:"n"`
	I uint64    `json:"i"`
	V [3]string `json:"v"`
}
type LogIn struct {
	N     string `json:"n"`
	I     uint64 `json:"i"`
	Del   bool   `json:"del"`
	Old   string `json:"old"`
	New   string `json:"new"`
	User  string `json:"user"`
	Email string `json:"email"`
	Time  uint64 `json:"time"`
	TZ    int16  `json:"tz"`
	Msg   string `json:"msg"`
}
type Case struct {
	ID        string  `json:"id"`
	BlockSize uint32  `json:"blocksize"`
	Restart   int     `json:"restart"`
	Unaligned bool    `json:"unaligned"`
	SkipIndex bool    `json:"skipindex"`
	Hash      string  `json:"hash"`
	Exact     bool    `json:"exact"`
	Min       uint64  `json:"min"`
	Max       uint64  `json:"max"`
	Refs      []RefIn `json:"refs"`
	Logs      []LogIn `json:"logs"`
}

// Fault is one damaged file: the table it derives from and the edit.
type Fault struct {
	Table int    `json:"table"`
	Field string `json:"field"`
	Class string `json:"class"`
	Kind  string `json:"kind"` // edit | truncate
	Off   int    `json:"off"`
	Len   int    `json:"len"`
	Bytes string `json:"bytes"` // hex replacement
	Block int    `json:"block"`
	InLog bool   `json:"inlog"`
	Size  int    `json:"size"`          // truncate: new size
	Pos   []int  `json:"pos,omitempty"` // flip: byte*8+bit positions; splice: src, len, dst
	Feat  string `json:"feat"`          // layout feature of the table (for distinct counting)
}

type Plan struct {
	Tables []string   `json:"tables"` // file names
	Keys   [][]string `json:"keys"`
	Oids   [][]string `json:"oids"`
	Faults []Fault    `json:"faults"`
	CaseOf []int      `json:"caseof"` // table index -> index of its case in the input (cases the writer refuses are skipped)
}

func unhex(s string) []byte {
	if s == "" {
		return nil
	}
	b, _ := hex.DecodeString(s)
	return b
}

func writeTable(c Case) ([]byte, error) {
	cfg := reftable.Config{BlockSize: c.BlockSize, RestartInterval: c.Restart, Unaligned: c.Unaligned, SkipIndexObjects: c.SkipIndex, ExactLogMessage: c.Exact, HashID: reftable.SHA1ID}
	if c.Hash == "s256" {
		cfg.HashID = reftable.SHA256ID
	}
	buf := &bytes.Buffer{}
	w, err := reftable.NewWriter(buf, &cfg)
	if err != nil {
		return nil, err
	}
	w.SetLimits(c.Min, c.Max)
	for _, x := range c.Refs {
		rec := reftable.RefRecord{RefName: x.N, UpdateIndex: x.I}
		switch x.V[0] {
		case "v":
			rec.Value = unhex(x.V[1])
		case "p":
			rec.Value, rec.TargetValue = unhex(x.V[1]), unhex(x.V[2])
		case "s":
			rec.Target = x.V[1]
		}
		if x.I < c.Min || x.I > c.Max {
			continue
		}
		if err := w.AddRef(&rec); err != nil {
			return nil, err
		}
	}
	for _, x := range c.Logs {
		rec := reftable.LogRecord{RefName: x.N, UpdateIndex: x.I}
		if !x.Del {
			rec.Old, rec.New, rec.Name, rec.Email, rec.Time, rec.TZOffset, rec.Message = unhex(x.Old), unhex(x.New), x.User, x.Email, x.Time, x.TZ, x.Msg
		}
		if !c.Exact && strings.Contains(strings.TrimSpace(x.Msg), "\n") {
			continue
		}
		if err := w.AddLog(&rec); err != nil {
			return nil, err
		}
	}
	if err := w.Close(); err != nil {
		return nil, err
	}
	return buf.Bytes(), nil
}

func putVarint(v uint64) []byte {
	var d [10]byte
	i := 9
	d[i] = byte(v & 0x7f)
	i--
	for {
		v >>= 7
		if v == 0 {
			break
		}
		v--
		d[i] = 0x80 | byte(v&0x7f)
		i--
	}
	return append([]byte{}, d[i+1:]...)
}

func encode(kind string, v uint64, n int) []byte {
	switch kind {
	case "byte":
		return []byte{byte(v)}
	case "u16":
		return []byte{byte(v >> 8), byte(v)}
	case "u24":
		return []byte{byte(v >> 16), byte(v >> 8), byte(v)}
	case "u64":
		b := make([]byte, 8)
		binary.BigEndian.PutUint64(b, v)
		return b
	}
	return putVarint(v)
}

func feature(f *fmtdec.File) string {
	secs := map[byte]int{}
	idx := 0
	for _, b := range f.Blocks {
		secs[b.Type]++
		if b.Type == 'i' {
			idx++
		}
	}
	s := ""
	for _, t := range []byte("roig") {
		if secs[t] > 0 {
			s += string(t)
		}
	}
	return fmt.Sprintf("%s/v%d/idx%d", s, f.Version, min(idx, 3))
}

func min(a, b int) int {
	if a < b {
		return a
	}
	return b
}

func planFaults(ti int, data []byte) []Fault {
	f, err := fmtdec.ParseFields(data)
	if err != nil {
		return nil
	}
	feat := feature(f)
	var out []Fault
	size := uint64(len(data))
	other := []uint64{0, uint64(f.HeaderSize), f.FooterStart, size}
	for _, b := range f.Blocks {
		other = append(other, b.Off)
	}
	seen := map[string]int{}
	for _, fd := range f.Fields {
		// per (field, block type) keep a bounded number of instances per table: first ones, which include block starts
		key := fd.Name
		if fd.Block >= 0 {
			key += string(f.Blocks[fd.Block].Type)
		}
		seen[key]++
		if seen[key] > 6 {
			continue
		}
		vals := map[string]uint64{"zero": 0, "one": 1, "minus1": fd.Val - 1, "plus1": fd.Val + 1, "double": fd.Val * 2}
		switch fd.Kind {
		case "byte":
			vals["max"] = 0xff
			if strings.HasSuffix(fd.Name, "type") {
				vals["type_r"], vals["type_i"], vals["type_o"], vals["type_g"], vals["type_x"] = 'r', 'i', 'o', 'g', 'x'
			}
		case "u16":
			vals["max"] = 0xffff
		case "u24":
			vals["max"] = 0xffffff
			vals["filelen"] = size & 0xffffff
		case "u64":
			vals["max"] = math.MaxUint64
			vals["max32"] = 0xffffffff
			vals["filelen"] = size
		default:
			vals["max24"] = 0xffffff
			vals["max32"] = 0xffffffff
			vals["max64"] = math.MaxUint64
			vals["filelen"] = size
		}
		if strings.Contains(fd.Name, "position") || strings.Contains(fd.Name, "offset") {
			for k, o := range other {
				if k < 8 {
					v := o
					if fd.Name == "footer.obj_position_and_id_len" {
						v = o<<5 | (fd.Val & 31)
					}
					vals[fmt.Sprintf("otherblock%d", k)] = v
				}
			}
			if fd.Block >= 0 {
				vals["ownblock"] = f.Blocks[fd.Block].Off
			}
		}
		if fd.Name == "footer.obj_position_and_id_len" {
			vals["idlen0"], vals["idlen31"] = fd.Val&^31, fd.Val|31
		}
		names := make([]string, 0, len(vals))
		for k := range vals {
			names = append(names, k)
		}
		sort.Strings(names)
		for _, cls := range names {
			v := vals[cls]
			if v == fd.Val {
				continue
			}
			enc := encode(fd.Kind, v, fd.Len)
			out = append(out, Fault{Table: ti, Field: fd.Name, Class: cls, Kind: "edit", Off: fd.Off, Len: fd.Len, Bytes: hex.EncodeToString(enc),
				Block: fd.Block, InLog: fd.InLog, Feat: feat})
			if fd.Kind == "varint" && len(enc) != fd.Len && fd.Block >= 0 {
				// the same edit with the rest of the block kept consistent: block length and the restart offsets behind
				// the field follow the change of length, padding absorbs it, so that the edited field really is decoded
				out = append(out, Fault{Table: ti, Field: fd.Name, Class: cls + "_consistent", Kind: "editfix", Off: fd.Off, Len: fd.Len, Bytes: hex.EncodeToString(enc),
					Block: fd.Block, InLog: fd.InLog, Feat: feat})
			}
		}
		if fd.Kind == "varint" {
			// a varint whose continuation bits never end
			out = append(out, Fault{Table: ti, Field: fd.Name, Class: "unterminated", Kind: "edit", Off: fd.Off, Len: fd.Len,
				Bytes: strings.Repeat("ff", fd.Len+9), Block: fd.Block, InLog: fd.InLog, Feat: feat})
		}
	}
	// the index graph (spec/NavFault.tla): every index entry redirected to every block of the file - a block before it,
	// its own block, a later block, of any type - keeping the entry's encoded length so nothing else moves
	nedge := 0
	for _, fd := range f.Fields {
		if fd.Name != "index.block_position" || fd.Block < 0 || fd.InLog {
			continue
		}
		own := f.Blocks[fd.Block].Off
		for _, b := range f.Blocks {
			if b.Off == fd.Val || len(putVarint(b.Off)) != fd.Len || nedge >= 6000 {
				continue
			}
			rel := "before"
			if b.Off == own {
				rel = "own"
			} else if b.Off > own {
				rel = "after"
			}
			nedge++
			out = append(out, Fault{Table: ti, Field: fd.Name, Class: fmt.Sprintf("edge_to_%c_%s", b.Type, rel), Kind: "edit", Off: fd.Off, Len: fd.Len,
				Bytes: hex.EncodeToString(putVarint(b.Off)), Block: fd.Block, Feat: feat})
		}
	}
	// a block that is valid but holds no record at all (restart count 0, or one restart pointing at the end of the
	// empty record area): two fields edited together
	ne, tot := map[byte]int{}, map[byte]int{}
	for _, b := range f.Blocks {
		tot[b.Type]++
	}
	for bi, b := range f.Blocks {
		ne[b.Type]++
		if ne[b.Type] > 3 && ne[b.Type] < tot[b.Type]-1 { // the first three and the last two blocks of every section
			continue
		}
		for _, rc := range []int{0, 1} {
			out = append(out, Fault{Table: ti, Field: "block.len+restart_count", Class: fmt.Sprintf("emptied_rc%d", rc), Kind: "empty", Block: bi, Size: rc, Feat: feat})
			if bi == len(f.Blocks)-1 {
				// ... and the footer moved up right behind it: an empty block that ends its section (and the file)
				out = append(out, Fault{Table: ti, Field: "block.len+restart_count", Class: fmt.Sprintf("emptied_rc%d_then_footer", rc), Kind: "empty", Block: bi, Size: rc, Len: 1, Feat: feat})
			}
		}
	}
	// a log block whose deflate stream inflates to far more than its declared length ("bomb")
	nb := 0
	for bi, b := range f.Blocks {
		if b.Type == 'g' && nb < 2 {
			nb++
			out = append(out, Fault{Table: ti, Field: "block.zlib_stream", Class: "inflates_to_64MiB", Kind: "bomb", Block: bi, Feat: feat})
		}
	}
	// truncations: at every block boundary +-1, and below header + footer
	cuts := map[int]bool{}
	for _, b := range f.Blocks {
		for _, d := range []int{-1, 0, 1} {
			cuts[int(b.Off)+d] = true
			cuts[int(b.Off)+b.Padded+d] = true
		}
	}
	for _, n := range []int{0, 1, 4, 5, 23, 24, 27, 28, 29, 67, 68, 72, 91, 92, 95, 96, 99, 100, 101, len(data) - 1, len(data) - 4, len(data) - 68, len(data) - 72} {
		cuts[n] = true
	}
	cl := []int{}
	for n := range cuts {
		if n >= 0 && n < len(data) {
			cl = append(cl, n)
		}
	}
	sort.Ints(cl)
	for _, n := range cl {
		out = append(out, Fault{Table: ti, Field: "file.size", Class: fmt.Sprintf("truncate"), Kind: "truncate", Size: n, Feat: feat})
	}
	return out
}

// randomFaults: seeded damage that is NOT derived from the format: bit flips (1-3 bits anywhere, also inside the
// inflated body of log blocks) and splices (a range overwritten by another range, deleted, or inserted a second time);
// the footer checksum is repaired afterwards when the file is still long enough.
func randomFaults(ti int, data []byte, n int, rng *rand.Rand) []Fault {
	f, err := fmtdec.ParseFields(data)
	if err != nil || len(data) < 100 {
		return nil
	}
	feat := feature(f)
	var out []Fault
	var logBlocks []int
	for bi, b := range f.Blocks {
		if b.Type == 'g' {
			logBlocks = append(logBlocks, bi)
		}
	}
	for i := 0; i < n; i++ {
		k := 1 + rng.Intn(3)
		pos := []int{}
		for j := 0; j < k; j++ {
			pos = append(pos, rng.Intn(len(data))*8+rng.Intn(8))
		}
		out = append(out, Fault{Table: ti, Field: "bytes", Class: fmt.Sprintf("bitflip%d", k), Kind: "flip", Pos: pos, Feat: feat})
		if len(logBlocks) > 0 && i%3 == 0 {
			bi := logBlocks[rng.Intn(len(logBlocks))]
			out = append(out, Fault{Table: ti, Field: "log_block.inflated_bytes", Class: fmt.Sprintf("bitflip%d", k), Kind: "flip", InLog: true, Block: bi,
				Pos: []int{rng.Intn(1 << 20), rng.Intn(1 << 20), rng.Intn(1 << 20)}[:k], Feat: feat})
		}
	}
	for i := 0; i < n/2; i++ {
		l := 1 + rng.Intn(64)
		if rng.Intn(4) == 0 {
			l = 1 + rng.Intn(len(data)/2)
		}
		src, dst := rng.Intn(len(data)-l+1), rng.Intn(len(data)-l+1)
		cls := []string{"overwrite", "delete", "insert"}[rng.Intn(3)]
		out = append(out, Fault{Table: ti, Field: "bytes", Class: "splice_" + cls, Kind: "splice", Pos: []int{src, l, dst}, Feat: feat})
	}
	return out
}

// moreKeys: on a table with a multi-level index every ref name is sought (at most 80): which index blocks a descent
// passes through, and where it rolls over into the next block, depends on the key.
func moreKeys(c Case, data []byte) []string {
	f, err := fmtdec.Parse(data)
	if err != nil {
		return nil
	}
	nidx := 0
	for _, b := range f.Blocks {
		if b.Type == 'i' {
			nidx++
		}
	}
	if nidx < 3 {
		return nil
	}
	out := []string{}
	step := 1 + len(c.Refs)/80
	for i := 0; i < len(c.Refs); i += step {
		out = append(out, c.Refs[i].N, c.Refs[i].N+"0")
	}
	return out
}

// apply builds the damaged file.
func apply(data []byte, ft Fault) []byte {
	if ft.Kind == "truncate" {
		return append([]byte{}, data[:ft.Size]...)
	}
	if ft.Kind == "flip" && !ft.InLog {
		out := append([]byte{}, data...)
		for _, p := range ft.Pos {
			if p/8 < len(out) {
				out[p/8] ^= 1 << uint(p%8)
			}
		}
		fixFooter(out, false)
		return out
	}
	if ft.Kind == "flip" && ft.InLog {
		f, err := fmtdec.Parse(data)
		if err != nil || ft.Block >= len(f.Blocks) {
			return data
		}
		b := f.Blocks[ft.Block]
		hoff := 0
		if b.Off == 0 {
			hoff = f.HeaderSize
		}
		start := int(b.Off)
		zr, err := zlib.NewReader(bytes.NewReader(data[start+hoff+4 : start+b.RawLen]))
		if err != nil {
			return data
		}
		var body bytes.Buffer
		if _, err := body.ReadFrom(zr); err != nil || body.Len() == 0 {
			return data
		}
		bb := body.Bytes()
		for _, p := range ft.Pos {
			bb[(p/8)%len(bb)] ^= 1 << uint(p%8)
		}
		var z bytes.Buffer
		z.Write(data[start : start+hoff+4])
		zw, _ := zlib.NewWriterLevel(&z, 9)
		zw.Write(bb)
		zw.Close()
		out := append([]byte{}, data[:start]...)
		out = append(out, z.Bytes()...)
		out = append(out, data[start+b.RawLen:]...)
		return out
	}
	if ft.Kind == "splice" {
		src, l, dst := ft.Pos[0], ft.Pos[1], ft.Pos[2]
		var out []byte
		switch ft.Class {
		case "splice_overwrite":
			out = append([]byte{}, data...)
			copy(out[dst:dst+l], data[src:src+l])
		case "splice_delete":
			out = append(append([]byte{}, data[:src]...), data[src+l:]...)
		default:
			out = append(append(append([]byte{}, data[:dst]...), data[src:src+l]...), data[dst:]...)
		}
		fixFooter(out, false)
		return out
	}
	if ft.Kind == "editfix" {
		f, err := fmtdec.Parse(data)
		if err != nil || ft.Block >= len(f.Blocks) {
			return data
		}
		b := f.Blocks[ft.Block]
		hoff := 0
		if b.Off == 0 {
			hoff = f.HeaderSize
		}
		start := int(b.Off)
		repl := unhex(ft.Bytes)
		var blk []byte
		rel := ft.Off
		if ft.InLog {
			zr, err := zlib.NewReader(bytes.NewReader(data[start+hoff+4 : start+b.RawLen]))
			if err != nil {
				return data
			}
			var body bytes.Buffer
			body.Write(data[start : start+hoff+4])
			if _, err := body.ReadFrom(zr); err != nil {
				return data
			}
			blk = body.Bytes()
		} else {
			blk = data[start : start+b.RawLen]
			rel = ft.Off - start
		}
		if rel < hoff+4 || rel+ft.Len > len(blk)-2 {
			return data
		}
		nb := append([]byte{}, blk[:rel]...)
		nb = append(nb, repl...)
		nb = append(nb, blk[rel+ft.Len:]...)
		delta := len(repl) - ft.Len
		nb[hoff+1], nb[hoff+2], nb[hoff+3] = byte(len(nb)>>16), byte(len(nb)>>8), byte(len(nb))
		rc := int(nb[len(nb)-2])<<8 | int(nb[len(nb)-1])
		for i := 0; i < rc; i++ {
			p := len(nb) - 2 - 3*rc + 3*i
			if p < rel+len(repl) {
				break
			}
			o := int(nb[p])<<16 | int(nb[p+1])<<8 | int(nb[p+2])
			if o > rel {
				o += delta
				nb[p], nb[p+1], nb[p+2] = byte(o>>16), byte(o>>8), byte(o)
			}
		}
		out := append([]byte{}, data[:start]...)
		if ft.InLog {
			var z bytes.Buffer
			z.Write(nb[:hoff+4])
			zw, _ := zlib.NewWriterLevel(&z, 9)
			zw.Write(nb[hoff+4:])
			zw.Close()
			out = append(out, z.Bytes()...)
			out = append(out, data[start+b.RawLen:]...)
			return out
		}
		out = append(out, nb...)
		pad := b.Padded - b.RawLen
		rest := data[start+b.RawLen:]
		if pad > 0 {
			if delta > 0 {
				cut := delta
				if cut > pad {
					cut = pad
				}
				rest = rest[cut:]
			} else {
				out = append(out, make([]byte, -delta)...)
			}
		}
		out = append(out, rest...)
		return out
	}
	if ft.Kind == "empty" {
		f, err := fmtdec.Parse(data)
		if err != nil || ft.Block >= len(f.Blocks) {
			return data
		}
		b := f.Blocks[ft.Block]
		hoff := 0
		if b.Off == 0 {
			hoff = f.HeaderSize
		}
		start := int(b.Off)
		body := []byte{}
		if ft.Size == 1 {
			body = append(body, byte((hoff+4)>>16), byte((hoff+4)>>8), byte(hoff+4))
		}
		body = append(body, 0, byte(ft.Size))
		blen := hoff + 4 + len(body)
		out := append([]byte{}, data...)
		out[start+hoff+1], out[start+hoff+2], out[start+hoff+3] = byte(blen>>16), byte(blen>>8), byte(blen)
		if b.Type == 'g' {
			var z bytes.Buffer
			zw, _ := zlib.NewWriterLevel(&z, 9)
			zw.Write(body)
			zw.Close()
			body = z.Bytes()
		}
		if start+hoff+4+len(body) > len(out) {
			return data
		}
		copy(out[start+hoff+4:], body)
		if ft.Len == 1 {
			out = append(out[:start+hoff+4+len(body)], data[f.FooterStart:]...)
		}
		return out
	}
	if ft.Kind == "bomb" {
		f, err := fmtdec.Parse(data)
		if err != nil || ft.Block >= len(f.Blocks) {
			return data
		}
		b := f.Blocks[ft.Block]
		hoff := 0
		if b.Off == 0 {
			hoff = f.HeaderSize
		}
		start := int(b.Off)
		var z bytes.Buffer
		z.Write(data[start : start+hoff+4])
		zw, _ := zlib.NewWriterLevel(&z, 9)
		zero := make([]byte, 1<<20)
		for i := 0; i < 64; i++ {
			zw.Write(zero)
		}
		zw.Close()
		out := append([]byte{}, data[:start]...)
		out = append(out, z.Bytes()...)
		out = append(out, data[start+b.RawLen:]...)
		return out
	}
	repl := unhex(ft.Bytes)
	if !ft.InLog {
		out := append([]byte{}, data[:ft.Off]...)
		out = append(out, repl...)
		out = append(out, data[ft.Off+ft.Len:]...)
		if strings.HasPrefix(ft.Field, "footer.") || strings.HasPrefix(ft.Field, "header.") {
			fixFooter(out, strings.HasPrefix(ft.Field, "header."))
		}
		return out
	}
	// inside a log block: inflate, edit, deflate again
	f, err := fmtdec.Parse(data)
	if err != nil || ft.Block >= len(f.Blocks) {
		return data
	}
	b := f.Blocks[ft.Block]
	hoff := 0
	if b.Off == 0 {
		hoff = f.HeaderSize
	}
	start := int(b.Off)
	zr, err := zlib.NewReader(bytes.NewReader(data[start+hoff+4 : start+b.RawLen]))
	if err != nil {
		return data
	}
	var body bytes.Buffer
	body.Write(data[start : start+hoff+4])
	if _, err := body.ReadFrom(zr); err != nil {
		return data
	}
	bb := body.Bytes()
	if ft.Off+ft.Len > len(bb) {
		return data
	}
	nb := append([]byte{}, bb[:ft.Off]...)
	nb = append(nb, repl...)
	nb = append(nb, bb[ft.Off+ft.Len:]...)
	var z bytes.Buffer
	z.Write(nb[:hoff+4])
	zw, _ := zlib.NewWriterLevel(&z, 9)
	zw.Write(nb[hoff+4:])
	zw.Close()
	out := append([]byte{}, data[:start]...)
	out = append(out, z.Bytes()...)
	out = append(out, data[start+b.RawLen:]...)
	return out
}

// fixFooter repairs the footer checksum (and repeats an edited header in the footer).
func fixFooter(b []byte, header bool) {
	if len(b) < 24+68 {
		return
	}
	hs, fs := 24, 68
	if b[4] == 2 {
		hs, fs = 28, 72
	}
	if len(b) < hs+fs {
		return
	}
	foot := b[len(b)-fs:]
	if header {
		copy(foot[:hs], b[:hs])
	}
	binary.BigEndian.PutUint32(foot[fs-4:], crc32.ChecksumIEEE(foot[:fs-4]))
}

const scanCap = 2000000

// exercise runs the reader over damaged bytes; returns "" or a description of the failure.
func exercise(data []byte, keys []string, oids []string) (outcome string) {
	step := "NewReader"
	defer func() {
		if p := recover(); p != nil {
			outcome = fmt.Sprintf("panic in %s: %v", step, p)
		}
	}()
	// No single call may allocate more than the format can justify: a block is at most 16 MiB (24-bit length),
	// so reading one costs at most about twice that.  Checked after every call below.
	var m0 runtime.MemStats
	runtime.ReadMemStats(&m0)
	last := m0.TotalAlloc
	over := func() string {
		var m runtime.MemStats
		runtime.ReadMemStats(&m)
		grew := m.TotalAlloc - last
		last = m.TotalAlloc
		if grew > 40<<20 && grew > uint64(len(data))*8 {
			return fmt.Sprintf("%s allocates without bound: %d MiB in one call on a damaged file of %d KiB", step, grew>>20, len(data)>>10)
		}
		return ""
	}
	rd, err := reftable.NewReader(&reftable.ByteBlockSource{Source: data}, "damaged")
	if err != nil {
		return ""
	}
	scanR := func(it *reftable.Iterator) string {
		for n := 0; ; n++ {
			var r reftable.RefRecord
			ok, err := it.NextRef(&r)
			if err != nil || !ok {
				return ""
			}
			if n > scanCap {
				return "iteration does not end"
			}
		}
	}
	scanL := func(it *reftable.Iterator) string {
		for n := 0; ; n++ {
			var r reftable.LogRecord
			ok, err := it.NextLog(&r)
			if err != nil || !ok {
				return ""
			}
			if n > scanCap {
				return "iteration does not end"
			}
		}
	}
	step = "SeekRef(\"\")+scan"
	if it, err := rd.SeekRef(""); err == nil {
		if s := scanR(it); s != "" {
			return step + ": " + s
		}
	}
	if s := over(); s != "" {
		return s
	}
	step = "SeekLog(\"\")+scan"
	if it, err := rd.SeekLog("", math.MaxUint64); err == nil {
		if s := scanL(it); s != "" {
			return step + ": " + s
		}
	}
	if s := over(); s != "" {
		return s
	}
	for _, k := range keys {
		step = "SeekRef(key)+scan"
		if it, err := rd.SeekRef(k); err == nil {
			if s := scanR(it); s != "" {
				return step + ": " + s
			}
		}
		step = "SeekLog(key)+scan"
		if it, err := rd.SeekLog(k, 5); err == nil {
			if s := scanL(it); s != "" {
				return step + ": " + s
			}
		}
		if s := over(); s != "" {
			return s
		}
		step = "ReadRef/ReadLogAt"
		reftable.ReadRef(rd, k)
		reftable.ReadLogAt(rd, k, math.MaxUint64)
		if s := over(); s != "" {
			return s
		}
	}
	for _, o := range oids {
		step = "RefsFor+scan"
		if it, err := rd.RefsFor(unhex(o)); err == nil {
			if s := scanR(it); s != "" {
				return step + ": " + s
			}
		}
	}
	// the same bytes read through a merged view (what a stack holding this table does)
	step = "NewMerged"
	mg, err := reftable.NewMerged([]reftable.Table{rd}, rd.HashID())
	if err != nil {
		return ""
	}
	step = "Merged.SeekRef(\"\")+scan"
	if it, err := mg.SeekRef(""); err == nil {
		if s := scanR(it); s != "" {
			return step + ": " + s
		}
	}
	step = "Merged.SeekLog(\"\")+scan"
	if it, err := mg.SeekLog("", math.MaxUint64); err == nil {
		if s := scanL(it); s != "" {
			return step + ": " + s
		}
	}
	for i, k := range keys {
		if i >= 4 {
			break
		}
		step = "Merged.SeekRef(key)+scan"
		if it, err := mg.SeekRef(k); err == nil {
			if s := scanR(it); s != "" {
				return step + ": " + s
			}
		}
	}
	for _, o := range oids {
		step = "Merged.RefsFor+scan"
		if it, err := mg.RefsFor(unhex(o)); err == nil {
			if s := scanR(it); s != "" {
				return step + ": " + s
			}
		}
	}
	if s := over(); s != "" {
		return s
	}
	return ""
}

func main() {
	switch realos.Args[1] {
	case "plan":
		data, err := realos.ReadFile(realos.Args[2])
		if err != nil {
			panic(err)
		}
		var cases []Case
		if err := json.Unmarshal(data, &cases); err != nil {
			panic(err)
		}
		dir := realos.Args[3]
		plan := Plan{}
		for ci, c := range cases {
			b, err := writeTable(c)
			if err != nil {
				continue
			}
			ti := len(plan.Tables)
			plan.CaseOf = append(plan.CaseOf, ci)
			name := fmt.Sprintf("t%d.ref", ti)
			realos.WriteFile(filepath.Join(dir, name), b, 0644)
			plan.Tables = append(plan.Tables, name)
			keys := []string{}
			if n := len(c.Refs); n > 0 {
				keys = append(keys, c.Refs[0].N, c.Refs[n/2].N, c.Refs[n-1].N, c.Refs[n-1].N+"z")
			}
			if n := len(c.Logs); n > 0 {
				keys = append(keys, c.Logs[n/2].N)
			}
			keys = append(keys, "a")
			keys = append(keys, moreKeys(c, b)...)
			oids := []string{}
			for _, r := range c.Refs {
				if r.V[0] == "v" || r.V[0] == "p" {
					oids = append(oids, r.V[1])
					if len(oids) >= 2 {
						break
					}
				}
			}
			hs := 40
			if c.Hash == "s256" {
				hs = 64
			}
			oids = append(oids, strings.Repeat("f", hs))
			plan.Keys = append(plan.Keys, keys)
			plan.Oids = append(plan.Oids, oids)
			plan.Faults = append(plan.Faults, planFaults(ti, b)...)
			if len(realos.Args) > 5 {
				var nr int
				var seed int64
				fmt.Sscan(realos.Args[4], &nr)
				fmt.Sscan(realos.Args[5], &seed)
				plan.Faults = append(plan.Faults, randomFaults(ti, b, nr, rand.New(rand.NewSource(seed*1000+int64(ti))))...)
			}
		}
		// one file per table: a child evaluating faults of one table does not have to parse all the others
		per := map[int][]Fault{}
		for _, ft := range plan.Faults {
			per[ft.Table] = append(per[ft.Table], ft)
		}
		for ti := range plan.Tables {
			b, _ := json.Marshal(Plan{Tables: plan.Tables, Keys: plan.Keys, Oids: plan.Oids, Faults: per[ti]})
			realos.WriteFile(filepath.Join(dir, fmt.Sprintf("plan-%d.json", ti)), b, 0644)
		}
		out, _ := json.Marshal(plan)
		realos.WriteFile(filepath.Join(dir, "plan.json"), out, 0644)
		fmt.Printf("tables=%d faults=%d\n", len(plan.Tables), len(plan.Faults))
	case "one":
		// re-evaluate one recorded fault: {"case": ..., "fault": ...}
		raw, err := realos.ReadFile(realos.Args[2])
		if err != nil {
			panic(err)
		}
		var rp struct {
			Case  Case  `json:"case"`
			Fault Fault `json:"fault"`
		}
		if err := json.Unmarshal(raw, &rp); err != nil {
			panic(err)
		}
		b, err := writeTable(rp.Case)
		if err != nil {
			panic(err)
		}
		c := rp.Case
		keys := []string{}
		if n := len(c.Refs); n > 0 {
			keys = append(keys, c.Refs[0].N, c.Refs[n/2].N, c.Refs[n-1].N, c.Refs[n-1].N+"z")
		}
		if n := len(c.Logs); n > 0 {
			keys = append(keys, c.Logs[n/2].N)
		}
		keys = append(keys, "a")
		keys = append(keys, moreKeys(c, b)...)
		oids := []string{}
		for _, r := range c.Refs {
			if r.V[0] == "v" || r.V[0] == "p" {
				oids = append(oids, r.V[1])
				if len(oids) >= 2 {
					break
				}
			}
		}
		hs := 40
		if c.Hash == "s256" {
			hs = 64
		}
		oids = append(oids, strings.Repeat("f", hs))
		bad := apply(b, rp.Fault)
		if len(realos.Args) > 3 {
			realos.WriteFile(realos.Args[3], bad, 0644)
		}
		fmt.Printf("START\n")
		res := exercise(bad, keys, oids)
		if res == "" {
			fmt.Printf("OK\n")
		} else {
			fmt.Printf("BAD %s\n", res)
		}
	case "eval":
		dir := realos.Args[2]
		var from, to int
		fmt.Sscan(realos.Args[3], &from)
		fmt.Sscan(realos.Args[4], &to)
		// eval <dir> <from> <to> [table]: indices are global without a table, else relative to that table's file
		pname := "plan.json"
		if len(realos.Args) > 5 {
			pname = "plan-" + realos.Args[5] + ".json"
		}
		pb, err := realos.ReadFile(filepath.Join(dir, pname))
		if err != nil {
			panic(err)
		}
		var plan Plan
		json.Unmarshal(pb, &plan)
		cache := map[int][]byte{}
		w := realos.Stdout
		for k := from; k < to && k < len(plan.Faults); k++ {
			ft := plan.Faults[k]
			data, ok := cache[ft.Table]
			if !ok {
				data, _ = realos.ReadFile(filepath.Join(dir, plan.Tables[ft.Table]))
				cache[ft.Table] = data
			}
			fmt.Fprintf(w, "START %d\n", k)
			bad := apply(data, ft)
			res := exercise(bad, plan.Keys[ft.Table], plan.Oids[ft.Table])
			if res == "" {
				fmt.Fprintf(w, "OK %d\n", k)
			} else {
				fmt.Fprintf(w, "BAD %d %s\n", k, strings.ReplaceAll(res, "\n", " "))
			}
		}
		fmt.Fprintf(w, "DONE\n")
	}
}
