// drvtable writes single tables with the real Writer, reads them back with
// the real Reader (scans, seeks of every key class, RefsFor), decodes the
// bytes with the independent decoder, and records everything in the
// vocabulary of spec/Table.tla and spec/Layout.tla.
//
//	drvtable <cases.json> <out.json> [dumpdir]
package main

import (
	"bytes"
	"encoding/hex"
	"encoding/json"
	"fmt"
	"math"
	realos "os"
	"path/filepath"
	"sort"
	"strings"

	"verifwork/fmtdec"
	"verifwork/reftable"
)

type RefIn struct {
	N        string    `json:"n"`
	I        uint64    `json:"i"`
	V        [3]string `json:"v"`        // kind d|v|p|s ; a, b: hex of the hash bytes (full size) or the symref target
	Oversize bool      `json:"oversize"` // deliberately larger than a block: the writer must refuse it
}

type LogIn struct {
	N      string `json:"n"`
	I      uint64 `json:"i"`
	Del    bool   `json:"del"`
	Old    string `json:"old"` // hex or ""
	New    string `json:"new"`
	User   string `json:"user"`
	Email  string `json:"email"`
	Time   uint64 `json:"time"`
	TZ     int16  `json:"tz"`
	Msg    string `json:"msg"`
	MsgHex string `json:"msghex"` // arbitrary message bytes (replaces msg)
}

type Case struct {
	ID        string   `json:"id"`
	BlockSize uint32   `json:"blocksize"`
	Restart   int      `json:"restart"`
	Unaligned bool     `json:"unaligned"`
	SkipIndex bool     `json:"skipindex"`
	Hash      string   `json:"hash"`
	Exact     bool     `json:"exact"`
	Min       uint64   `json:"min"`
	Max       uint64   `json:"max"`
	Refs      []RefIn  `json:"refs"`
	Logs      []LogIn  `json:"logs"`
	SeekRefs  []string `json:"seekrefs"`
	SeekLogs  []struct {
		N string `json:"n"`
		I uint64 `json:"i"`
	} `json:"seeklogs"`
	Oids     []string `json:"oids"` // hex
	Universe []string `json:"universe"`
	Layout   bool     `json:"layout"`   // emit the decoded layout
	ReadFile string   `json:"readfile"` // do not write: read this file (written by the other implementation)
	Big      bool     `json:"big"`      // too large for TLC: the scan is compared with the written records by the driver, only the verdict is recorded
}

// a seek result is recorded as its first seekCap records, its length and its last record
// (the iteration after a seek is the same code as the full scan, which is recorded completely)
const seekCap = 12

type refOut = [3]interface{}
type logOut = [4]interface{}

type runner struct {
	c    Case
	hs   int
	rank map[string]int
	ev   []map[string]interface{}
}

func (r *runner) k(n string) int { return r.rank[n] }

func unhex(s string) []byte {
	if s == "" {
		return nil
	}
	b, err := hex.DecodeString(s)
	if err != nil {
		panic(err)
	}
	return b
}

func refVal(kind int, value, peeled []byte, target string) [3]string {
	switch {
	case target != "" || kind == 3:
		return [3]string{"s", target, ""}
	case len(peeled) > 0 || kind == 2:
		return [3]string{"p", hex.EncodeToString(value), hex.EncodeToString(peeled)}
	case len(value) > 0 || kind == 1:
		return [3]string{"v", hex.EncodeToString(value), ""}
	}
	return [3]string{"d", "", ""}
}

func digest(old, new []byte, user, email string, time uint64, tz int16, msg string) string {
	return fmt.Sprintf("%x|%x|%s|%s|%d|%d|%q", old, new, user, email, time, tz, msg)
}

func (r *runner) refFromRec(rec *reftable.RefRecord) refOut {
	return refOut{r.k(rec.RefName), rec.UpdateIndex, refVal(-1, rec.Value, rec.TargetValue, rec.Target)}
}

func (r *runner) logFromRec(rec *reftable.LogRecord) logOut {
	if rec.IsDeletion() {
		return logOut{r.k(rec.RefName), rec.UpdateIndex, "", 0}
	}
	return logOut{r.k(rec.RefName), rec.UpdateIndex, digest(rec.Old, rec.New, rec.Name, rec.Email, rec.Time, rec.TZOffset, rec.Message), rec.Time}
}

func (r *runner) normLog(l LogIn) logOut {
	if l.Del || (l.Old == "" && l.New == "" && l.User == "" && l.Email == "" && l.Time == 0 && l.TZ == 0 && l.Msg == "") {
		return logOut{r.k(l.N), l.I, "", 0}
	}
	zero := make([]byte, r.hs)
	o, n := unhex(l.Old), unhex(l.New)
	if o == nil {
		o = zero
	}
	if n == nil {
		n = zero
	}
	msg := l.Msg
	if !r.c.Exact {
		msg = strings.TrimSpace(msg) + "\n"
	}
	return logOut{r.k(l.N), l.I, digest(o, n, l.User, l.Email, l.Time, l.TZ, msg), l.Time}
}

func (r *runner) scanRefs(it *reftable.Iterator) ([]refOut, error) {
	out := []refOut{}
	for {
		var rec reftable.RefRecord
		ok, err := it.NextRef(&rec)
		if err != nil {
			return out, err
		}
		if !ok {
			// the end is stable: asking again neither yields a record nor fails
			for k := 0; k < 2; k++ {
				if ok2, err2 := it.NextRef(&rec); ok2 || err2 != nil {
					return out, fmt.Errorf("iterator yields after its end: ok=%v err=%v", ok2, err2)
				}
			}
			return out, nil
		}
		out = append(out, r.refFromRec(&rec))
		if len(out) > 200000 {
			return out, fmt.Errorf("iterator does not end")
		}
	}
}

func (r *runner) scanLogs(it *reftable.Iterator) ([]logOut, error) {
	out := []logOut{}
	for {
		var rec reftable.LogRecord
		ok, err := it.NextLog(&rec)
		if err != nil {
			return out, err
		}
		if !ok {
			for k := 0; k < 2; k++ {
				if ok2, err2 := it.NextLog(&rec); ok2 || err2 != nil {
					return out, fmt.Errorf("iterator yields after its end: ok=%v err=%v", ok2, err2)
				}
			}
			return out, nil
		}
		out = append(out, r.logFromRec(&rec))
		if len(out) > 200000 {
			return out, fmt.Errorf("iterator does not end")
		}
	}
}

// guard runs f, turning a panic into an error string.
func guard(f func() error) (msg string) {
	defer func() {
		if p := recover(); p != nil {
			msg = fmt.Sprint("panic: ", p)
		}
	}()
	if err := f(); err != nil {
		return err.Error()
	}
	return ""
}

func (r *runner) emit(ev map[string]interface{}) { r.ev = append(r.ev, ev) }

func (r *runner) exec(dump string) map[string]interface{} {
	c := r.c
	cfg := reftable.Config{BlockSize: c.BlockSize, RestartInterval: c.Restart, Unaligned: c.Unaligned, SkipIndexObjects: c.SkipIndex,
		ExactLogMessage: c.Exact, HashID: reftable.SHA1ID}
	if c.Hash == "s256" {
		cfg.HashID = reftable.SHA256ID
	}
	r.hs = cfg.HashID.Size()

	set := map[string]bool{}
	for _, n := range c.Universe {
		set[n] = true
	}
	for _, x := range c.Refs {
		set[x.N] = true
	}
	for _, x := range c.Logs {
		set[x.N] = true
	}
	for _, n := range c.SeekRefs {
		set[n] = true
	}
	for _, x := range c.SeekLogs {
		set[x.N] = true
	}
	names := []string{}
	for n := range set {
		names = append(names, n)
	}
	sort.Strings(names)
	r.rank = map[string]int{}
	for i, n := range names {
		r.rank[n] = i + 1
	}

	if c.ReadFile != "" {
		data, err := realos.ReadFile(c.ReadFile)
		if err != nil {
			panic(err)
		}
		return r.readBack(data)
	}

	// ---- write
	buf := &bytes.Buffer{}
	var w *reftable.Writer
	accRefs, accLogs := []refOut{}, []logOut{}
	writeEv := map[string]interface{}{"op": "write", "min": c.Min, "max": c.Max, "exact": c.Exact, "hashsize": r.hs, "big": false}
	calls := []map[string]interface{}{}
	closeRes := "ok"
	msg := guard(func() error {
		var err error
		w, err = reftable.NewWriter(buf, &cfg)
		if err != nil {
			return err
		}
		w.SetLimits(c.Min, c.Max)
		for _, x := range c.Refs {
			rec := reftable.RefRecord{RefName: x.N, UpdateIndex: x.I}
			switch x.V[0] {
			case "v":
				rec.Value = unhex(x.V[1])
			case "p":
				rec.Value, rec.TargetValue = unhex(x.V[1]), unhex(x.V[2])
			case "s":
				rec.Target = x.V[1]
			}
			err := w.AddRef(&rec)
			ro := refOut{r.k(x.N), x.I, x.V}
			calls = append(calls, map[string]interface{}{"kind": "ref", "rec": ro, "ok": err == nil, "emptyname": x.N == "", "inrange": x.I >= c.Min && x.I <= c.Max, "oversize": x.Oversize})
			if err == nil {
				accRefs = append(accRefs, ro)
			}
		}
		for _, x := range c.Logs {
			rec := reftable.LogRecord{RefName: x.N, UpdateIndex: x.I}
			if !x.Del {
				rec.Old, rec.New, rec.Name, rec.Email, rec.Time, rec.TZOffset, rec.Message = unhex(x.Old), unhex(x.New), x.User, x.Email, x.Time, x.TZ, x.Msg
			}
			err := w.AddLog(&rec)
			lo := r.normLog(x)
			single := !strings.Contains(strings.TrimSpace(x.Msg), "\n")
			calls = append(calls, map[string]interface{}{"kind": "log", "rec": lo, "ok": err == nil, "emptyname": x.N == "", "single": single || x.Del, "oversize": false})
			if err == nil {
				accLogs = append(accLogs, lo)
			}
		}
		err = w.Close()
		if err == reftable.ErrEmptyTable {
			closeRes = "empty"
		} else if err != nil {
			closeRes = "other"
			return err
		}
		return nil
	})
	writeEv["calls"], writeEv["close"], writeEv["err"], writeEv["refs"], writeEv["logs"] = calls, closeRes, msg, accRefs, accLogs
	if msg != "" {
		writeEv["close"] = "error"
	}
	r.emit(writeEv)
	data := buf.Bytes()
	if dump != "" {
		realos.WriteFile(filepath.Join(dump, c.ID+".ref"), data, 0644)
	}
	if msg != "" || closeRes != "ok" {
		return map[string]interface{}{"id": c.ID, "nh": 1, "size": len(data), "events": r.ev}
	}
	return r.readBack(data)
}

// readBack reads the bytes with the real reader (scan, seeks, RefsFor) and decodes them independently.
func (r *runner) readBack(data []byte) map[string]interface{} {
	c := r.c
	out := map[string]interface{}{"id": c.ID, "nh": 1, "size": len(data)}

	// ---- read back with the real reader
	var rd *reftable.Reader
	scan := map[string]interface{}{"op": "scan", "refs": []refOut{}, "logs": []logOut{}}
	scan["err"] = guard(func() error {
		var err error
		rd, err = reftable.NewReader(&reftable.ByteBlockSource{Source: data}, "t")
		if err != nil {
			return err
		}
		it, err := rd.SeekRef("")
		if err != nil {
			return err
		}
		refs, err := r.scanRefs(it)
		scan["refs"] = refs
		if err != nil {
			return err
		}
		it, err = rd.SeekLog("", math.MaxUint64)
		if err != nil {
			return err
		}
		logs, err := r.scanLogs(it)
		scan["logs"] = logs
		if err != nil {
			return err
		}
		scan["min"], scan["max"] = rd.MinUpdateIndex(), rd.MaxUpdateIndex()
		return nil
	})
	if _, ok := scan["min"]; !ok {
		scan["min"], scan["max"] = 0, 0
	}
	// a caller that reuses ONE record variable and keeps the earlier results by value must see the same records
	if rd != nil && scan["err"] == "" {
		scan["reuse"] = guard(func() error {
			it, err := rd.SeekRef("")
			if err != nil {
				return err
			}
			var rec reftable.RefRecord
			var kept []reftable.RefRecord
			for {
				ok, err := it.NextRef(&rec)
				if err != nil {
					return err
				}
				if !ok {
					break
				}
				kept = append(kept, rec)
			}
			want := scan["refs"].([]refOut)
			if len(kept) != len(want) {
				return fmt.Errorf("reused-record scan returns %d refs, fresh-record scan %d", len(kept), len(want))
			}
			for i := range kept {
				a, _ := json.Marshal(r.refFromRec(&kept[i]))
				b, _ := json.Marshal(want[i])
				if string(a) != string(b) {
					return fmt.Errorf("ref %d kept from a reused record changed: %s, was %s", i, a, b)
				}
			}
			// two iterators interleaved on the same reader: a ref walk, in whose middle logs are sought and read
			{
				want := scan["refs"].([]refOut)
				it1, err := rd.SeekRef("")
				if err != nil {
					return err
				}
				got := []refOut{}
				for n := 0; ; n++ {
					var rr reftable.RefRecord
					ok, err := it1.NextRef(&rr)
					if err != nil {
						return fmt.Errorf("ref walk interleaved with log reads: %v", err)
					}
					if !ok {
						break
					}
					got = append(got, r.refFromRec(&rr))
					// one other read between two steps of the walk, of a different kind each time, so that the walk
					// crosses block and section boundaries right after a log block / another ref block was opened
					switch n % 4 {
					case 0:
						if it2, err := rd.SeekLog("", math.MaxUint64); err == nil {
							var lr reftable.LogRecord
							it2.NextLog(&lr)
							it2.NextLog(&lr)
						}
					case 1:
						reftable.ReadLogAt(rd, rr.RefName, math.MaxUint64)
					case 2:
						reftable.ReadRef(rd, rr.RefName)
					}
					if len(got) > len(want)+5 {
						break
					}
				}
				a, _ := json.Marshal(got)
				b, _ := json.Marshal(want)
				if string(a) != string(b) {
					return fmt.Errorf("a ref walk interleaved with log reads on the same reader returns %d refs / different records (plain scan: %d)", len(got), len(want))
				}
			}
			it, err = rd.SeekLog("", math.MaxUint64)
			if err != nil {
				return err
			}
			var lrec reftable.LogRecord
			var lkept []reftable.LogRecord
			for {
				ok, err := it.NextLog(&lrec)
				if err != nil {
					return err
				}
				if !ok {
					break
				}
				lkept = append(lkept, lrec)
			}
			lwant := scan["logs"].([]logOut)
			for i := range lkept {
				if i >= len(lwant) {
					break
				}
				a, _ := json.Marshal(r.logFromRec(&lkept[i]))
				b, _ := json.Marshal(lwant[i])
				if string(a) != string(b) {
					return fmt.Errorf("log %d kept from a reused record changed", i)
				}
			}
			return nil
		})
	} else {
		scan["reuse"] = ""
	}
	if c.Big {
		// compare here, record the verdict only
		wev := r.ev[0]
		wr, _ := json.Marshal(wev["refs"])
		sr, _ := json.Marshal(scan["refs"])
		wl, _ := json.Marshal(wev["logs"])
		sl, _ := json.Marshal(scan["logs"])
		f, perr := fmtdec.Parse(data)
		problems := []string{}
		if perr != nil {
			problems = append(problems, perr.Error())
		} else {
			problems = append(problems, f.Problems...)
		}
		big := map[string]interface{}{"op": "big", "nrefs": len(scan["refs"].([]refOut)), "nlogs": len(scan["logs"].([]logOut)),
			"refsequal": string(wr) == string(sr), "logsequal": string(wl) == string(sl), "err": scan["err"], "reuse": scan["reuse"], "problems": problems,
			"wrefs": len(wev["refs"].([]refOut)), "wlogs": len(wev["logs"].([]logOut))}
		wev["calls"], wev["refs"], wev["logs"], wev["big"] = []int{}, []int{}, []int{}, true
		r.emit(big)
		out["events"] = r.ev
		return out
	}
	r.emit(scan)
	if rd != nil {
		for _, key := range c.SeekRefs {
			ev := map[string]interface{}{"op": "seekref", "k": r.k(key), "refs": []refOut{}, "read": []refOut{}, "n": 0, "last": []refOut{}}
			ev["err"] = guard(func() error {
				it, err := rd.SeekRef(key)
				if err != nil {
					return err
				}
				refs, err := r.scanRefs(it)
				ev["n"], ev["last"] = len(refs), []refOut{}
				if len(refs) > 0 {
					ev["last"] = refs[len(refs)-1:]
				}
				if len(refs) > seekCap {
					refs = refs[:seekCap]
				}
				ev["refs"] = refs
				if err != nil {
					return err
				}
				rec, err := reftable.ReadRef(rd, key)
				if err != nil {
					return err
				}
				if rec != nil {
					ev["read"] = []refOut{r.refFromRec(rec)}
				}
				return nil
			})
			r.emit(ev)
		}
		for _, sk := range c.SeekLogs {
			ev := map[string]interface{}{"op": "seeklog", "k": r.k(sk.N), "i": sk.I, "logs": []logOut{}, "read": []logOut{}, "n": 0, "last": []logOut{}}
			ev["err"] = guard(func() error {
				it, err := rd.SeekLog(sk.N, sk.I)
				if err != nil {
					return err
				}
				logs, err := r.scanLogs(it)
				ev["n"], ev["last"] = len(logs), []logOut{}
				if len(logs) > 0 {
					ev["last"] = logs[len(logs)-1:]
				}
				if len(logs) > seekCap {
					logs = logs[:seekCap]
				}
				ev["logs"] = logs
				if err != nil {
					return err
				}
				rec, err := reftable.ReadLogAt(rd, sk.N, sk.I)
				if err != nil {
					return err
				}
				if rec != nil {
					ev["read"] = []logOut{r.logFromRec(rec)}
				}
				return nil
			})
			r.emit(ev)
		}
		for _, oid := range c.Oids {
			ev := map[string]interface{}{"op": "refsfor", "oid": oid, "refs": []refOut{}}
			ev["err"] = guard(func() error {
				it, err := rd.RefsFor(unhex(oid))
				if err != nil {
					return err
				}
				refs, err := r.scanRefs(it)
				ev["refs"] = refs
				return err
			})
			r.emit(ev)
		}
	}

	// ---- the bytes, decoded independently
	if c.Layout {
		r.emit(r.layout(data))
	}
	out["events"] = r.ev
	return out
}

// layout renders the decoded file in the vocabulary of Layout.tla.
func (r *runner) layout(data []byte) map[string]interface{} {
	ev := map[string]interface{}{"op": "layout"}
	f, err := fmtdec.Parse(data)
	problems := []string{}
	if err != nil {
		problems = append(problems, "undecodable: "+err.Error())
	}
	problems = append(problems, f.Problems...)
	ev["problems"] = problems
	ev["version"], ev["blocksize"], ev["min"], ev["max"], ev["hashsize"] = f.Version, f.BlockSize, f.Min, f.Max, f.HashSize
	ev["headersize"], ev["footerstart"], ev["size"] = f.HeaderSize, f.FooterStart, f.Size
	ev["refindex"], ev["objoff"], ev["objidlen"], ev["objindex"], ev["logoff"], ev["logindex"] = f.RefIndexOff, f.ObjOff, f.ObjIDLen, f.ObjIndexOff, f.LogOff, f.LogIndexOff
	blocks := []map[string]interface{}{}
	section := "r"
	for _, b := range f.Blocks {
		if b.Type != 'i' {
			section = string(b.Type)
		}
		bm := map[string]interface{}{"type": string(b.Type), "sec": section, "off": b.Off, "len": b.Len, "rawlen": b.RawLen, "padded": b.Padded,
			"restarts": append([]int{}, b.Restarts...)}
		recs := [][2]int{}
		for _, x := range b.Recs {
			recs = append(recs, [2]int{x.Off, x.PrefixLen})
		}
		bm["recs"] = recs
		refs, logs, idxs, objs := []refOut{}, []logOut{}, [][2]interface{}{}, [][2]interface{}{}
		prefixes := [][2]string{}
		for _, x := range b.Refs {
			refs = append(refs, refOut{r.k(x.Name), x.Idx, refVal(x.Kind, x.Value, x.Peeled, x.Target)})
			vp, pp := "", ""
			if f.ObjIDLen > 0 && len(x.Value) >= f.ObjIDLen {
				vp = hex.EncodeToString(x.Value[:f.ObjIDLen])
			}
			if f.ObjIDLen > 0 && len(x.Peeled) >= f.ObjIDLen {
				pp = hex.EncodeToString(x.Peeled[:f.ObjIDLen])
			}
			prefixes = append(prefixes, [2]string{vp, pp})
		}
		for _, x := range b.Logs {
			if x.Del {
				logs = append(logs, logOut{r.k(x.Name), x.Idx, "", 0})
			} else {
				logs = append(logs, logOut{r.k(x.Name), x.Idx, digest(x.Old, x.New, x.User, x.Email, x.Time, x.TZ, x.Message), x.Time})
			}
		}
		for _, x := range b.Idxs {
			idxs = append(idxs, [2]interface{}{r.keyOf(section, x.LastKey), x.Off})
		}
		for _, x := range b.Objs {
			objs = append(objs, [2]interface{}{hex.EncodeToString(x.Prefix), x.Offsets})
		}
		bm["refs"], bm["logs"], bm["idxs"], bm["objs"], bm["prefixes"] = refs, logs, idxs, objs, prefixes
		// the block's last key in the same representation as index keys
		var last interface{} = 0
		switch b.Type {
		case 'r':
			if n := len(b.Refs); n > 0 {
				last = r.k(b.Refs[n-1].Name)
			}
		case 'g':
			if n := len(b.Logs); n > 0 {
				last = []interface{}{r.k(b.Logs[n-1].Name), b.Logs[n-1].Idx}
			}
		case 'o':
			if n := len(b.Objs); n > 0 {
				last = hex.EncodeToString(b.Objs[n-1].Prefix)
			}
		case 'i':
			if n := len(b.Idxs); n > 0 {
				last = r.keyOf(section, b.Idxs[n-1].LastKey)
			}
		}
		bm["last"] = last
		blocks = append(blocks, bm)
	}
	ev["blocks"] = blocks
	return ev
}

// keyOf renders an index key of a section: ref name -> rank, log key -> [rank, idx], object prefix -> hex.
func (r *runner) keyOf(section, key string) interface{} {
	switch section {
	case "r":
		return r.k(key)
	case "g":
		if len(key) >= 9 && key[len(key)-9] == 0 {
			var v uint64
			for _, c := range []byte(key[len(key)-8:]) {
				v = v<<8 | uint64(c)
			}
			return []interface{}{r.k(key[:len(key)-9]), ^v}
		}
		return []interface{}{0, 0}
	}
	return hex.EncodeToString([]byte(key))
}

func main() {
	if len(realos.Args) < 3 {
		fmt.Fprintln(realos.Stderr, "usage: drvtable cases.json out.json [dumpdir]")
		realos.Exit(2)
	}
	data, err := realos.ReadFile(realos.Args[1])
	if err != nil {
		panic(err)
	}
	var cases []Case
	if err := json.Unmarshal(data, &cases); err != nil {
		panic(err)
	}
	dump := ""
	if len(realos.Args) > 3 {
		dump = realos.Args[3]
	}
	outs := []map[string]interface{}{}
	for ci := range cases {
		for li := range cases[ci].Logs {
			if h := cases[ci].Logs[li].MsgHex; h != "" {
				cases[ci].Logs[li].Msg = string(unhex(h))
			}
		}
	}
	for _, c := range cases {
		r := &runner{c: c, ev: []map[string]interface{}{}}
		outs = append(outs, r.exec(dump))
	}
	b, err := json.Marshal(outs)
	if err != nil {
		panic(err)
	}
	if err := realos.WriteFile(realos.Args[2], b, 0644); err != nil {
		panic(err)
	}
}
