#!/usr/bin/env python3
"""Summarise MISMATCH lines printed by a --replay of a store/table check: show only the differing records."""
import sys, re
sys.path.insert(0, '/verif/lib')
import common as C
t = sys.stdin.read()
idx = [m.start() for m in re.finditer(r'<<\s*"MISMATCH"', t)]
for a, b in zip(idx, idx[1:] + [len(t)]):
    chunk = t[a:b]
    # cut at the end of the top-level tuple
    depth, end = 0, None
    i = 0
    while i < len(chunk):
        if chunk.startswith("<<", i):
            depth += 1; i += 2; continue
        if chunk.startswith(">>", i):
            depth -= 1; i += 2
            if depth == 0:
                end = i; break
            continue
        if chunk[i] == '"':
            i += 1
            while i < len(chunk) and chunk[i] != chr(34):
                i += 2 if chunk[i] == "\\" else 1
        i += 1
    v = C.parse_tla_value(chunk[:end])
    name, got, exp = v[1], v[3], v[5]
    print("==", name)
    def short(x):
        s = str(x)
        return s if len(s) < 160 else s[:70] + " ... " + s[-70:]
    if isinstance(got, list) and isinstance(exp, list) and got and isinstance(got[0], dict):
        for i in range(max(len(got), len(exp))):
            g = got[i] if i < len(got) else None
            e = exp[i] if i < len(exp) else None
            if g != e:
                print(" table", i + 1, "got", g and (g["min"], g["max"]), "expected", e and (e["min"], e["max"]))
                if g and e:
                    for f in ("refs", "logs"):
                        gs, es = [str(x) for x in g[f]], [str(x) for x in e[f]]
                        for x in g[f]:
                            if str(x) not in es: print("   ", f, "only in got:     ", short(x))
                        for x in e[f]:
                            if str(x) not in gs: print("   ", f, "only in expected:", short(x))
                        if sorted(gs) == sorted(es) and gs != es: print("   ", f, "same records, different ORDER")
    elif isinstance(got, list) and isinstance(exp, list):
        gs, es = [str(x) for x in got], [str(x) for x in exp]
        for x in got:
            if str(x) not in es: print("   only in got:     ", short(x))
        for x in exp:
            if str(x) not in gs: print("   only in expected:", short(x))
        if sorted(gs) == sorted(es) and gs != es: print("   same records, different ORDER:", short(got), "vs", short(exp))
    else:
        print("   got", short(got), "expected", short(exp))
