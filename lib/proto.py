"""Protocol family (C04 C05 C06 C08 C09-concurrent C10 C16): run generation, execution of the real
code under the scheduler, trace validation by TLC against TraceStackFS."""
import json, os, random, subprocess, concurrent.futures as cf, re, shutil, time
import common as C

SHARED = ["refs/s/a", "refs/s/b", "refs/s/c"]

INVARIANTS = [
    "C04_NoLostNoPhantom", "C04_AckIffCommitted", "C04_OneAtATime", "C04_OnlyLockFailures", "C04_FinalView",
    "C05_ListIntegrity", "C05_NoGc", "C06_Atomic", "C08_OwnerOnly", "C09_StaleNeverCommits",
    "C10_OneVersion", "C10_Readable", "C10_Content", "C10_Terminates", "C16_IdleOwnsNothing", "C16_QuiescentDir", "C16_GcSucceeds",
]

# which invariants decide which property (C06 = the C04/C05 state predicates in runs with crashes)
PROP_INVS = {
    "C04": ["C04_NoLostNoPhantom", "C04_AckIffCommitted", "C04_AckedIsCommitted", "C04_OneAtATime", "C04_OnlyLockFailures", "C04_FinalView", "C10_Terminates"],
    "C05": ["C05_ListIntegrity", "C05_NoGc"],
    "C06": ["C06_Atomic", "C05_ListIntegrity", "C05_NoGc", "C04_NoLostNoPhantom", "C04_AckIffCommitted", "C04_AckedIsCommitted", "C04_FinalView", "C10_Readable"],
    "C08": ["C08_OwnerOnly"],
    "C09": ["C09_StaleNeverCommits", "C09_Refreshed"],
    "C10": ["C10_OneVersion", "C10_Readable", "C10_Content", "C10_Terminates"],
    "C16": ["C16_IdleOwnsNothing", "C16_QuiescentDir", "C16_GcSucceeds"],
}


class TxnGen:
    """Every transaction writes 1-2 shared names (value or deletion); the driver adds the marker ref."""

    def __init__(self, rng, start=1):
        self.rng, self.next = rng, start

    def part(self, txn):
        n = self.rng.choice([1, 1, 2])
        names = self.rng.sample(SHARED, n)
        return [[nm, "" if self.rng.random() < 0.25 else "v%d" % txn] for nm in sorted(names)]

    def add(self):
        t = self.next
        self.next += 1
        return {"op": "add", "txn": t, "parts": [self.part(t)]}

    def empty(self):
        t = self.next
        self.next += 1
        return {"op": "add", "txn": t, "parts": [[]]}

    def addition(self):
        t = self.next
        self.next += 1
        return {"op": "addition", "txn": t, "parts": [self.part(t), self.part(t)]}

    def abort(self):
        c = self.addition()
        c["op"] = "abort"
        return c


def random_call(rng, tg, weights=None):
    ops = weights or [("add", 5), ("addition", 1), ("abort", 1), ("overlap", 1), ("conflict", 1), ("empty", 1), ("compactall", 3), ("compactrange", 2), ("autocompact", 1),
                      ("reload", 2), ("open", 1), ("clean", 1), ("closeopen", 1), ("read", 1)]
    tot = sum(w for _, w in ops)
    x = rng.random() * tot
    for op, w in ops:
        x -= w
        if x <= 0:
            break
    if op == "add":
        return [tg.add()]
    if op == "addition":
        return [tg.addition()]
    if op == "abort":
        return [tg.abort()]
    if op == "conflict":
        # a transaction that the name rule may have to refuse (refs/s/a vs refs/s/a/sub)
        c = tg.add()
        c["parts"] = [[[rng.choice(["refs/s/a/sub", "refs/s/b/sub"]), "v%d" % c["txn"]]]]
        return [c]
    if op == "overlap":
        c = tg.addition()
        c["op"] = "overlap"
        return [c]
    if op == "empty":
        return [tg.empty()]
    if op == "compactrange":
        f = rng.randint(0, 2)
        return [{"op": "compactrange", "first": f, "last": f + rng.randint(1, 2)}]
    if op == "closeopen":
        return [{"op": "close"}, {"op": "open"}]
    return [{"op": op}]


def random_run(rng, rid, nh=None, ncalls=None, hash_=None, crash=False, weights=None, fault=False):
    tg = TxnGen(rng)
    nh = nh or rng.choice([2, 2, 3, 3, 4])
    init = [tg.add() for _ in range(rng.choice([0, 1, 2, 2, 3, 4]))]
    progs, auto = {}, {}
    for h in range(1, nh + 1):
        calls = [{"op": "open"}]
        for _ in range(ncalls or rng.choice([1, 2, 2, 3])):
            calls += random_call(rng, tg, weights)
        progs[str(h)] = calls
        auto[str(h)] = rng.random() < 0.3
    run = {"id": rid, "hash": hash_ or rng.choice(["sha1", "sha1", "s256"]), "nh": nh, "init": init, "progs": progs, "auto": auto,
           "sched": [], "tail": rng.choice(["random", "pct", "pct"]), "seed": rng.randint(1, 1 << 30), "pctd": rng.choice([1, 2, 3])}
    if crash:
        run["crash"] = [{"h": rng.randint(1, nh), "before": rng.randint(2, 30)}]
    if fault:
        # one filesystem call of one handle fails with an injected I/O error (if the call at that position can fail that way)
        run["fault"] = [{"h": rng.randint(1, nh), "before": rng.randint(2, 40)}]
    x = rng.random()
    if x < 0.2:
        # no marker refs: deletions can empty whole tables, compactions can have an empty result (no transaction accounting in these runs)
        run["nomarks"] = True
        for c in init + [c for p in progs.values() for c in p]:
            if c.get("parts"):
                c["parts"] = [[[nm, "" if rng.random() < 0.6 else v] for nm, v in part] for part in c["parts"]]
    elif x < 0.35:
        run["skipnamecheck"] = True
    elif x < 0.42 and not crash:
        # one process is configured with the OTHER hash function; it can only get a handle while the stack is empty, and whatever
        # it does afterwards the list must keep naming tables of one hash type that every correctly configured handle can open
        # (every handle opens the still empty directory during set-up; a correctly configured handle commits first, which makes
        # its hash function the stack's)
        run["init"] = []
        run["preopen"] = True
        run["alien"] = {str(nh): True}
        run["auto"] = {k: False for k in auto}
        for h in progs:
            progs[h] = [c for c in progs[h] if c["op"] not in ("open", "close", "reopen")]
        progs["1"] = [tg.add()] + progs["1"]
        run["sched"] = [1] * 40
    return run


def run_driver(binary, runs, workdir, nproc=16, chunk=40, timeout=600):
    """Execute runs in parallel processes; returns list of outputs (same order)."""
    chunks = [runs[i:i + chunk] for i in range(0, len(runs), chunk)]
    outs = [None] * len(chunks)

    def one(i):
        jp = os.path.join(workdir, "jobs-%d.json" % i)
        op = os.path.join(workdir, "out-%d.json" % i)
        with open(jp, "w") as f:
            json.dump({"runs": chunks[i]}, f)
        p = subprocess.run([binary, jp, op], stdout=subprocess.PIPE, stderr=subprocess.STDOUT, text=True, timeout=timeout,
                           env=dict(os.environ, TMPDIR=workdir))
        if p.returncode != 0:
            raise C.Inconclusive("driver failed (rc=%d): %s" % (p.returncode, p.stdout[-3000:]))
        with open(op) as f:
            res = json.load(f)
        os.remove(jp)
        os.remove(op)
        return res

    with cf.ThreadPoolExecutor(max_workers=nproc) as ex:
        for i, res in enumerate(ex.map(one, range(len(chunks)))):
            outs[i] = res
    return [o for c in outs for o in c]


def validate(traces, workdir, module="TraceStackFS", invariants=None, jvms=8, chunk=40, timeout=900):
    """Validate traces with TLC. Returns (violations, rejected, stats):
    violations = list of (invariant, trace id, line); rejected = list of (trace id, line, text)."""
    invariants = invariants or INVARIANTS
    for t in traces:
        t["fault"] = bool(t.get("fault")) or any(e.get("injected") for e in t["events"])
    chunks = [traces[i:i + chunk] for i in range(0, len(traces), chunk)]
    viols, rej = [], []
    stats = dict(states=0, generated=0, jvm_runs=len(chunks), events=sum(len(t["events"]) for t in traces))

    def one(i):
        d = os.path.join(workdir, "val-%d" % i)
        C.copy_spec(d + "-w") if False else None
        sd = os.path.join(workdir, "valspec-%d" % i)
        shutil.copytree(os.path.join(C.VERIF, "spec"), sd)
        with open(os.path.join(sd, "traces.json"), "w") as f:
            json.dump(chunks[i], f)
        cfg = os.path.join(sd, "val.cfg")
        with open(cfg, "w") as f:
            f.write('SPECIFICATION TSpec\nCONSTANT TraceFile = "traces.json"\nCHECK_DEADLOCK TRUE\nINVARIANTS\n')
            f.write("  T_All\n")
        r = C.tlc(sd, module, "val.cfg", workdir, workers=2, timeout=timeout, heap="2g", cont=True, extra=["-difftrace"], small=True)
        shutil.rmtree(sd, ignore_errors=True)
        return r

    with cf.ThreadPoolExecutor(max_workers=jvms) as ex:
        results = list(ex.map(one, range(len(chunks))))
    for i, r in enumerate(results):
        out = r["out"]
        if r["rc"] == -9 and '"VIOL"' not in out:
            raise C.Inconclusive("TLC trace validation timed out")
        if r["rc"] == -9:
            stats["partial"] = True     # so many violations that TLC did not finish printing them: use what it reported
        stats["states"] += r["distinct"]
        stats["generated"] += r["generated"]
        for m in re.finditer(r'<<\s*"VIOL",\s*"(\w+)",\s*"([^"]*)",\s*(\d+)\s*>>', out):
            viols.append((m.group(1), m.group(2), int(m.group(3))))
        if "Deadlock reached" in out:
            # every deadlock report is followed by the behaviour; its first state names tr, its last the line
            for blk in out.split("Error: Deadlock reached.")[1:]:
                mt = re.search(r"/\\ tr = (\d+)", blk)
                ls = re.findall(r"/\\ l = (\d+)", blk)
                tid = chunks[i][int(mt.group(1)) - 1]["id"] if mt else "?"
                line = int(ls[-1]) if ls else 0
                rej.append((tid, line))
        elif not re.search(r"Model checking completed|Finished in", out) or re.search(r"Error: (?!Invariant|Deadlock)", out):
            if not viols or re.search(r"TLC threw|Parsing or semantic|Unknown|was not|Error: Evaluating|attempted to", out):
                raise C.Inconclusive("TLC failed on trace validation:\n" + out[-3000:])
    # dedupe (TLC may evaluate an invariant more than once for a state)
    if not viols and any("is violated" in r["out"] for r in results):
        raise C.Inconclusive("TLC reports an invariant violation that the result parser did not understand")
    first = {}
    for inv, tid, line in viols:   # a state predicate stays violated: keep the first line per (trace, invariant)
        if (inv, tid) not in first or line < first[(inv, tid)]:
            first[(inv, tid)] = line
    viols = sorted((inv, tid, line) for (inv, tid), line in first.items())
    return viols, rej, stats


# ----------------------------------------------------------------------------- direction A: TLC behaviours -> runs

def acts_of_text(text):
    """The sequence of `act` records of a TLC behaviour (error trace or simulation file)."""
    acts = []
    for m in re.finditer(r"/\\ act = (\[(?:.|\n)*?\])\s*(?=\n/\\ |\n\n|\n\*|\nSTATE|\n=+|\Z)", text):
        try:
            acts.append(C.parse_tla_value(m.group(1)))
        except Exception:
            pass
    return acts


INTERNAL = {"Ret", "A_Done", "K_Reloaded", "Init"}


def run_of_acts(acts, rid, initn, hash_="sha1", nh=None):
    """Turn a behaviour of StackProto into a driver run: per-handle programs, the schedule of handle
    choices (one per filesystem call / call start) and what the model expects each step to be."""
    progs, sched, expect, crash = {}, [], [], []
    gates = {}
    for a in acts:
        if a["a"] in INTERNAL:
            continue
        h = a["h"]
        if a["a"] == "Crash":
            crash.append({"h": h, "before": gates.get(h, 0) + 1})
            sched.append(h)
            expect.append({"h": h, "op": "crash", "pk": "", "res": ""})
            continue
        gates[h] = gates.get(h, 0) + 1
        if a["op"] == "call":
            op, txn, parts, first, last = a["arg"]
            rng = random.Random(txn * 7919 + 13)
            tg = TxnGen(rng)

            def part():
                return tg.part(txn)
            if op == "add":
                c = {"op": "add", "txn": txn, "parts": [part()]}
            elif op in ("addition", "abort"):
                c = {"op": op, "txn": txn, "parts": [part() for _ in range(parts)]}
            elif op == "empty":
                c = {"op": "add", "txn": txn, "parts": [[]]}
            elif op == "compactall" and first == 0:
                c = {"op": "compactall"}
            elif op in ("compactall", "compactrange"):
                c = {"op": "compactrange", "first": first - 1, "last": last - 1}
            elif op == "reopen":
                c = {"op": "reopen"}
            else:
                c = {"op": op}
            progs.setdefault(str(h), []).append(c)
            expect.append({"h": h, "op": "call", "pk": "", "res": ""})
        else:
            expect.append({"h": h, "op": a["op"], "pk": a["pk"], "res": a["res"]})
        sched.append(h)
    nh = nh or max([int(k) for k in progs] + [1])
    rng = random.Random(hash(rid) & 0xffff)
    tg = TxnGen(rng)
    init = []
    for k in range(1, initn + 1):
        init.append({"op": "add", "txn": k, "parts": [tg.part(k)]})
    for h in range(1, nh + 1):
        progs.setdefault(str(h), [])
    return {"id": rid, "hash": hash_, "nh": nh, "init": init, "progs": progs, "auto": {}, "sched": sched, "expect": expect,
            "crash": crash, "tail": "seq", "seed": 1, "preopen": True}


def tlc_walks(workdir, cfg_text, num, depth, seed, timeout=300):
    """Run TLC in simulation mode on StackProto; returns list of act sequences."""
    sd = os.path.join(workdir, "walkspec-%d" % seed)
    shutil.copytree(os.path.join(C.VERIF, "spec"), sd)
    with open(os.path.join(sd, "walk.cfg"), "w") as f:
        f.write(cfg_text)
    os.makedirs(os.path.join(sd, "sim"))
    r = C.tlc(sd, "StackProto", "walk.cfg", workdir, workers=1, timeout=timeout, heap="2g",
              simulate="file=sim/w,num=%d" % num, extra=["-depth", str(depth), "-seed", str(seed)], small=True)
    walks = []
    for fn in sorted(os.listdir(os.path.join(sd, "sim"))):
        with open(os.path.join(sd, "sim", fn)) as f:
            walks.append(acts_of_text(f.read()))
    if re.search(r"Invariant (\S+) is violated", r["out"]):
        pass
    shutil.rmtree(sd, ignore_errors=True)
    return walks, r


def proto_cfg(handles, maxops, maxids, initn, opkinds, crash=False, knobs=None, invariants=True, readers=(), readerops=(), readermax=None, live=False):
    k = dict(FixRelockOwner=True, FixRebase=True, FixTmpCleanup=True, FixReuseClose=True, FixCleanEnoent=True)
    k.update(knobs or {})
    t = ("SPECIFICATION FairSpec\nCONSTANTS\n  Record <- NoRecord\n" if live else "SPECIFICATION Spec\nCONSTANTS\n")
    t += "  Handles = {%s}\n  MaxOps = %d\n  MaxIds = %d\n  InitN = %d\n" % (", ".join(map(str, handles)), maxops, maxids, initn)
    t += "  OpKinds = {%s}\n  CrashOn = %s\n" % (", ".join('"%s"' % o for o in opkinds), "TRUE" if crash else "FALSE")
    t += "  ReaderHandles = {%s}\n  ReaderOps = {%s}\n  ReaderMaxOps = %d\n" % (", ".join(map(str, readers)), ", ".join('"%s"' % o for o in readerops),
                                                                                  maxops if readermax is None else readermax)
    for name, v in k.items():
        t += "  %s = %s\n" % (name, "TRUE" if v else "FALSE")
    t += "CHECK_DEADLOCK FALSE\n" + ("PROPERTY C10_EveryCallReturns\n" if live else "VIEW view\n")
    if invariants:
        t += "INVARIANTS\n" + "".join("  %s\n" % i for i in PROTO_INVS)
    return t


PROTO_INVS = ["C04_NoLostNoPhantom", "C04_AckIffCommitted", "C04_OneAtATime", "C04_OnlyLockFailures", "C04_CommitOrder",
              "C05_ListIntegrity", "C05_NoGc", "C06_Atomic", "C08_OwnerOnly", "C08_LockMutex", "C09_StaleNeverCommits",
              "C10_Snapshot", "C16_IdleOwnsNothing", "C16_QuiescentDir", "C16_GcSucceeds"]


# ----------------------------------------------------------------------------- direction A, systematic: transition cover

OPMAP = {
    "R_Read": ("readfile", "list"), "R_Open": ("open", "tab"), "R_Reread": ("readfile", "list"), "R_Gc": ("remove", "tab"),
    "A_Lock": ("createexcl", "listlock"), "A_UpToDate": ("readfile", "list"), "A_UnlockStale": ("remove", "listlock"), "A_Temp": ("tempfile", "tmp"),
    "A_Check": ("open", "tmp"), "A_CheckNew": ("open", "tab"), "A_RenameTab": ("rename", "tmp"), "A_RmTmp": ("remove", "tmp"), "A_Write": ("write", "listlock"),
    "A_Commit": ("rename", "listlock"), "A_CloseRm": ("remove", "tab"), "A_CloseUnlock": ("remove", "listlock"),
    "K_Lock": ("createexcl", "listlock"), "K_UpToDate": ("readfile", "list"), "K_SubLock": ("createexcl", "tablock"), "K_Unlock": ("remove", "listlock"),
    "K_Temp": ("tempfile", "tmp"), "K_Relock": ("createexcl", "listlock"), "K_Rebase": ("readfile", "list"), "K_RenameTab": ("rename", "tmp"),
    "K_Write": ("write", "listlock"), "K_Commit": ("rename", "listlock"), "K_RmDest": ("remove", "tab"), "K_Delete": ("remove", "tab"),
    "K_ClTmp": ("remove", "tmp"), "K_ClSub": ("remove", "tablock"), "K_ClLock": ("remove", "listlock"),
    "C_Read": ("readfile", "list"), "C_Gc": ("remove", "tab"),
    "L_Lock": ("createexcl", "listlock"), "L_UpToDate": ("readfile", "list"), "L_ReadDir": ("readdir", "other"), "L_Open": ("open", "tab"),
    "L_Remove": ("remove", "tab"), "L_Unlock": ("remove", "listlock"),
}


def parse_dot(path):
    """TLC's `-dump dot,actionlabels` graph -> (init id, {id: nextTxn}, {src: [(dst, act dict)]})"""
    node_re = re.compile(r'^(-?\d+) \[label="(.*)"[^"]*\]?;?$')
    edge_re = re.compile(r'^(-?\d+) -> (-?\d+) \[label="(\w+)\((.*?)\)?"')
    nexttxn, edges, order = {}, {}, []
    with open(path) as f:
        for line in f:
            if " -> " in line[:60]:
                m = re.match(r'^(-?\d+) -> (-?\d+) \[label="(\w+)\(?(.{0,200})', line)
                if not m:
                    continue
                src, dst, name, rest = m.group(1), m.group(2), m.group(3), m.group(4)
                edges.setdefault(src, []).append((dst, name, rest))
            else:
                m = re.match(r'^(-?\d+) \[label="', line)
                if m:
                    nid = m.group(1)
                    t = re.search(r'nextTxn = (\d+)', line)
                    nexttxn[nid] = int(t.group(1)) if t else 0
                    order.append(nid)
    init = order[0] if order else None
    return init, nexttxn, edges


def act_of_edge(name, rest, src_txn):
    rest = rest.replace('\\"', '"')
    hm = re.match(r'(\d+)', rest)
    h = int(hm.group(1)) if hm else 0
    if name == "StartAdd":
        m = re.match(r'(\d+),\s*(\d+),\s*"(\w+)"', rest)
        parts, op = int(m.group(2)), m.group(3)
        return {"a": "Start_" + op, "h": h, "op": "call", "pk": "", "res": "", "arg": [op, src_txn, parts, 0, 0]}
    if name == "StartCompactAll":
        return {"a": "Start_compactall", "h": h, "op": "call", "pk": "", "res": "", "arg": ["compactall", 0, 0, 0, 0]}
    if name == "StartCompact":
        m = re.match(r'(\d+),\s*(\d+),\s*(\d+),\s*"(\w+)"', rest)
        if not m:     # compactall: the upper end is an expression (Len(stack[h])), not a number
            return {"a": "Start_compactall", "h": h, "op": "call", "pk": "", "res": "", "arg": ["compactall", 0, 0, 0, 0]}
        return {"a": "Start_" + m.group(4), "h": h, "op": "call", "pk": "", "res": "", "arg": [m.group(4), 0, 0, int(m.group(2)), int(m.group(3))]}
    if name == "StartOther":
        m = re.match(r'(\d+),\s*"(\w+)"', rest)
        return {"a": "Start_" + m.group(2), "h": h, "op": "call", "pk": "", "res": "", "arg": [m.group(2), 0, 0, 0, 0]}
    if name == "Crash":
        return {"a": "Crash", "h": h, "op": "crash", "pk": "", "res": "", "arg": []}
    if name in OPMAP:
        return {"a": name, "h": h, "op": OPMAP[name][0], "pk": OPMAP[name][1], "res": "", "arg": []}
    return {"a": "Ret" if name not in ("A_Done", "K_Reloaded") else name, "h": h, "op": "internal", "pk": "", "res": "", "arg": []}


def transition_cover(init, nexttxn, edges, max_paths, rng):
    """Paths from the initial state that together traverse every edge (or as many as max_paths allows).
    Greedy: walk along uncovered edges; when stuck, go by a shortest path to the nearest state with an uncovered edge."""
    covered = set()
    total = sum(len(v) for v in edges.values())
    paths = []
    # BFS parents for shortest paths from init
    parent = {init: None}
    queue = [init]
    for s in queue:
        for k, (d, name, rest) in enumerate(edges.get(s, [])):
            if d not in parent:
                parent[d] = (s, k)
                queue.append(d)
    has_uncov = lambda s: any((s, k) not in covered for k in range(len(edges.get(s, []))))
    pending = [s for s in queue if edges.get(s)]
    pi = 0
    while len(covered) < total and len(paths) < max_paths:
        # next state (in BFS order) that still has an uncovered outgoing edge
        while pi < len(pending) and not has_uncov(pending[pi]):
            pi += 1
        if pi >= len(pending):
            break
        target = pending[pi]
        chain = []
        s = target
        while parent[s] is not None:
            p, k = parent[s]
            chain.append((p, k))
            s = p
        chain.reverse()
        path = []
        for (p, k) in chain:
            covered.add((p, k))
            d, name, rest = edges[p][k]
            path.append(act_of_edge(name, rest, nexttxn.get(p, 0)))
        s = target
        while True:
            outs = edges.get(s, [])
            unc = [k for k in range(len(outs)) if (s, k) not in covered]
            if not unc:
                break
            k = unc[0] if rng is None else rng.choice(unc)
            covered.add((s, k))
            d, name, rest = outs[k]
            path.append(act_of_edge(name, rest, nexttxn.get(s, 0)))
            s = d
            if len(path) > 400:
                break
        paths.append(path)
    return paths, len(covered), total


def tlc_cover(workdir, cfg_text, max_paths, seed, workers=4, timeout=600):
    """Exhaustive TLC run with a graph dump; returns (paths as act sequences, covered edges, total edges, tlc result)."""
    sd = os.path.join(workdir, "coverspec-%d" % seed)
    shutil.copytree(os.path.join(C.VERIF, "spec"), sd)
    with open(os.path.join(sd, "cover.cfg"), "w") as f:
        f.write(cfg_text)
    r = C.tlc(sd, "StackProto", "cover.cfg", workdir, workers=workers, timeout=timeout, heap="6g", extra=["-dump", "dot,actionlabels", os.path.join(sd, "graph")])
    dot = os.path.join(sd, "graph.dot")
    if r["rc"] == -9 or not os.path.exists(dot):
        shutil.rmtree(sd, ignore_errors=True)
        raise C.Inconclusive("TLC graph dump failed:\n" + r["out"][-1500:])
    init, nexttxn, edges = parse_dot(dot)
    shutil.rmtree(sd, ignore_errors=True)
    paths, cov, total = transition_cover(init, nexttxn, edges, max_paths, random.Random(seed))
    return paths, cov, total, r


# ----------------------------------------------------------------------------- conformance to StackProto (TraceStackProto)

CONFORM_OPS = {"open", "close", "reopen", "add", "addition", "abort", "compactall", "compactrange", "autocompact", "reload", "clean", "read"}


def conform_events(out, run):
    """The recorded execution in the vocabulary of StackProto, or None if the run uses something the implementation-level
    specification does not model (transactions without marker refs whose compactions can have an empty result, SkipNameCheck,
    a misconfigured hash function, reflog expiry, injected faults, the 'overlap' call, a failed open)."""
    if run.get("nomarks") or run.get("skipnamecheck") or run.get("alien") or run.get("fault"):
        return None
    evs = out["events"]
    # tables are named after the temporary they were renamed from (the model has one id counter)
    tmap = {}
    for e in evs:
        if e["ev"] == "fs" and e["op"] == "rename" and e.get("pk") == "tmp" and e.get("pk2") == "tab" and e["res"] == "ok":
            if e["to"] in tmap:
                return None
            tmap[e["to"]] = "t" + e["path"][3:]

    def nm(p):
        if p.endswith(".lock") and p != "list.lock":
            return tmap.get(p[:-5], p[:-5]) + ".lock"
        return tmap.get(p, p)
    res = []
    skip_ret = set()
    pending_call = {}
    for i, e in enumerate(evs):
        k = e["ev"]
        if k in ("view",):
            continue
        if k == "stuck":
            return None
        h = e["h"]
        if k == "fs":
            if e["op"] == "close":
                continue
            if e.get("injected") or e["res"].startswith("other") or e["op"] not in ("createexcl", "readfile", "open", "tempfile", "rename", "remove", "readdir", "write"):
                return None
            res.append(dict(k="fs", h=h, op=e["op"], pk=e["pk"], res=e["res"], path=nm(e["path"]), txn=0, parts=0, first=0, last=0, auto=False))
        elif k == "call":
            if e["op"] not in CONFORM_OPS or e.get("expiry"):
                return None
            op = e["op"]
            if op == "add" and not e["recs"]:
                op = "empty"
            pending_call[h] = len(res)
            res.append(dict(k="call", h=h, op=op, pk="", res="", path="", txn=e["txn"], parts=e.get("nparts", 0),
                            first=e.get("first", 0) + 1, last=e.get("last", 0) + 1, auto=bool(e.get("auto")) and op in ("add", "empty")))
        elif k == "ret":
            if e["res"] == "nohandle":
                # a call on a closed handle: nothing happened
                j = pending_call.get(h)
                if j is not None and j == len(res) - 1:
                    res.pop()
                    continue
                return None
            if e["res"] == "panic" or (e["op"] in ("open",) and e["res"] != "ok"):
                return None
            res.append(dict(k="ret", h=h, op=e["op"], pk="", res=e["res"], path="", txn=0, parts=0, first=0, last=0, auto=False))
        elif k == "crash":
            res.append(dict(k="crash", h=h, op="", pk="", res="", path="", txn=0, parts=0, first=0, last=0, auto=False))
        else:
            return None
    return res


def conform(outs, runs, workdir, jvms=8, chunk=60, timeout=900, specdir=None):
    """Validate recorded executions against StackProto (module TraceStackProto).  Returns (number of traces inside the
    vocabulary, list of (trace id, event index, event) that the implementation-level specification cannot explain, stats)."""
    runbyid = {r["id"]: r for r in runs}
    items = []
    for o in outs:
        ev = conform_events(o, runbyid.get(o["id"], {}))
        if ev:
            items.append({"id": o["id"], "ev": ev})
    chunks = [items[i:i + chunk] for i in range(0, len(items), chunk)]
    drift = []
    stats = dict(states=0, events=sum(len(t["ev"]) for t in items))

    def one(i):
        sd = os.path.join(workdir, "confspec-%d" % i)
        shutil.copytree(specdir or os.path.join(C.VERIF, "spec"), sd)
        with open(os.path.join(sd, "ptraces.json"), "w") as f:
            json.dump(chunks[i], f)
        r = C.tlc(sd, "TraceStackProto", "tsp.cfg", workdir, workers=1, timeout=timeout, heap="3g", small=True)
        shutil.rmtree(sd, ignore_errors=True)
        return r

    with cf.ThreadPoolExecutor(max_workers=jvms) as ex:
        results = list(ex.map(one, range(len(chunks))))
    for i, r in enumerate(results):
        out = r["out"]
        stats["states"] += r["distinct"]
        if r["rc"] == -9:
            raise C.Inconclusive("TLC conformance validation timed out")
        hw = {int(m.group(1)): (int(m.group(2)), int(m.group(3))) for m in re.finditer(r'<<\s*"HW",\s*(\d+),\s*(\d+),\s*(\d+)\s*>>', out)}
        if len(hw) != len(chunks[i]) or re.search(r"Error: ", out):
            raise C.Inconclusive("TLC failed on TraceStackProto:\n" + out[-3000:])
        for t, (reached, n) in hw.items():
            if reached <= n:
                tr = chunks[i][t - 1]
                drift.append((tr["id"], reached, tr["ev"][reached - 1]))
    return len(items), drift, stats


def conform_selftest(outs, runs, workdir):
    """The binding is not vacuous: traces with ONE corrupted field (a result, a path, a dropped event, a swapped pair of events
    of one handle) must be rejected by TraceStackProto.  Returns dict(mutants=, rejected=); an accepted mutant is inconclusive."""
    runbyid = {r["id"]: r for r in runs}
    base = []
    for o in outs:
        ev = conform_events(o, runbyid.get(o["id"], {}))
        if ev and len(ev) > 40:
            base.append((o, ev))
        if len(base) >= 6:
            break
    muts = []
    for k, (o, ev) in enumerate(base):
        fs = [i for i, e in enumerate(ev) if e["k"] == "fs"]
        if len(fs) < 10:
            continue
        i = fs[min(len(fs) - 1, len(fs) // 2 + k)]
        e = dict(ev[i])
        kind = k % 4
        if kind == 0:
            e["res"] = "ENOENT" if e["res"] == "ok" else "ok"
            m = ev[:i] + [e] + ev[i + 1:]
        elif kind == 1:
            e["path"] = e["path"] + "9"
            m = ev[:i] + [e] + ev[i + 1:]
        elif kind == 2:
            m = ev[:i] + ev[i + 1:]
        else:
            e["op"] = "readfile" if e["op"] != "readfile" else "open"
            m = ev[:i] + [e] + ev[i + 1:]
        muts.append({"id": "mut%d" % k, "events": [], "_ev": m})
    if not muts:
        return dict(mutants=0, rejected=0)
    # feed the pre-processed events directly
    sd = os.path.join(workdir, "confself")
    shutil.copytree(os.path.join(C.VERIF, "spec"), sd)
    with open(os.path.join(sd, "ptraces.json"), "w") as f:
        json.dump([{"id": m["id"], "ev": m["_ev"]} for m in muts], f)
    r = C.tlc(sd, "TraceStackProto", "tsp.cfg", workdir, workers=1, timeout=600, heap="3g", small=True)
    shutil.rmtree(sd, ignore_errors=True)
    hw = {int(m.group(1)): (int(m.group(2)), int(m.group(3))) for m in re.finditer(r'<<\s*"HW",\s*(\d+),\s*(\d+),\s*(\d+)\s*>>', r["out"])}
    if len(hw) != len(muts):
        raise C.Inconclusive("TLC failed on the conformance self-test:\n" + r["out"][-2000:])
    rejected = sum(1 for t, (reached, n) in hw.items() if reached <= n)
    if rejected != len(muts):
        raise C.Inconclusive("TraceStackProto accepted a corrupted trace (%d of %d rejected): the binding is vacuous" % (rejected, len(muts)))
    return dict(mutants=len(muts), rejected=rejected)
