#!/bin/bash
# usage: verify_mutant2.sh <dir> <TestNameRegex>   (like verify_mutant.sh but with an explicit test name)
d=$1; name=$2
export GOFLAGS=-mod=mod GOPROXY=off GOSUMDB=off GOTOOLCHAIN=local
wt=/tmp/wt/verify-$$
git -C /repo worktree add --detach $wt HEAD >/dev/null 2>&1 || exit 2
trap "git -C /repo worktree remove --force $wt >/dev/null 2>&1" EXIT
cd $wt
git apply --3way $d/patch.diff >/dev/null 2>&1 || git apply $d/patch.diff >/dev/null 2>&1 || { echo "RESULT apply=FAIL"; exit 3; }
git diff HEAD > $d/patch.rebased.diff
suite=$(go test -vet=off -count=1 ./... 2>&1 | tail -3 | grep -c "^ok")
cp $d/demo_test.go ./zz_demo_test.go
with=$(timeout 300 go test -vet=off -count=1 -run "$name" . 2>&1 | tail -1 | grep -c "^ok")
git reset -q --hard HEAD
without=$(timeout 300 go test -vet=off -count=1 -run "$name" . 2>&1 | tail -1 | grep -c "^ok")
echo "RESULT apply=ok suite_passes_with=$suite demo_passes_with=$with demo_passes_without=$without test=$name"
