----------------------------- MODULE TraceStore -----------------------------
(***************************************************************************)
(* Validation of sequential histories recorded from the real stack code    *)
(* (several handles, one call at a time) against Store.tla.                *)
(*                                                                         *)
(* State: `tabs`, the committed stack as the specification computes it     *)
(* from the logged transactions and compactions alone, and `loaded[h]`,    *)
(* the version of the stack each handle has in memory.  Every event is     *)
(* consumed by the action of the same name, which (1) computes what the    *)
(* specification says the call must return / the stack must become, and    *)
(* (2) records in `fails` every named check on which the logged outcome of *)
(* the real call differs.  The invariant is fails = {}.  An event is       *)
(* always consumed; TLC reports a deadlock only if the recorder is broken. *)
(***************************************************************************)
EXTENDS Store, Json

CONSTANTS TraceFile, Debug
Traces == JsonDeserialize(TraceFile)

VARIABLES tr, l, tabs, loaded, nextTab, fails
vars == <<tr, l, tabs, loaded, nextTab, fails>>

Ev == Traces[tr].events
E  == Ev[l]
NH == Traces[tr].nh
Comps(k) == Traces[tr].names[k]          \* key -> sequence of name components

TInit ==
  /\ tr \in 1..Len(Traces) /\ l = 1
  /\ tabs = <<>> /\ loaded = [h \in 1..NH |-> <<>>] /\ nextTab = 1 /\ fails = {}

Is(op) == l <= Len(Ev) /\ E.op = op
Step == l' = l + 1 /\ UNCHANGED tr
Fail(c, name) == IF c THEN {} ELSE {name}
(* comparison of a logged value with the specification's; in Debug mode a mismatch prints both *)
Cmp(got, exp, name) == IF got = exp THEN {} ELSE IF Debug /\ PrintT(<<"MISMATCH", name, "got", got, "expected", exp>>) THEN {name} ELSE {name}

(* JSON arrays arrive as tuples; records are <<k, idx, val>> / <<k, idx, val, time>> already *)
Shape(ts) == [i \in DOMAIN ts |-> <<ts[i].min, ts[i].max>>]
Strip(ts) == [i \in DOMAIN ts |-> [min |-> ts[i].min, max |-> ts[i].max, refs |-> ts[i].refs, logs |-> ts[i].logs]]
LiveNames(ts) == {Comps(r[1]) : r \in Range(RefView(ts))}

-----------------------------------------------------------------------------
TOpen ==
  /\ Is("open")
  /\ loaded' = [loaded EXCEPT ![E.h] = tabs]
  /\ fails' = Fail(E.res = "ok", "C10_OpenFails") \cup Fail(E.shape = Shape(tabs), "C04_OpenShape")
  /\ UNCHANGED <<tabs, nextTab>> /\ Step

(* the tables a transaction becomes: one per non-empty part, at consecutive update indices *)
PartTabs(parts, first, id0) ==
  LET ne == SelectSeq([p \in DOMAIN parts |-> [p |-> p, part |-> parts[p]]], LAMBDA x : x.part.refs # <<>> \/ x.part.logs # <<>>) IN
  [q \in DOMAIN ne |-> [id |-> id0 + q - 1, min |-> first + ne[q].p - 1, max |-> first + ne[q].p - 1,
                        refs |-> SortRefs(Range(ne[q].part.refs)), logs |-> SortLogs(Range(ne[q].part.logs))]]

(* net effect of a (multi-part) transaction on the set of live names *)
RECURSIVE NetLive(_, _, _)
NetLive(live, parts, p) ==
  IF p > Len(parts) THEN live
  ELSE LET adds == {Comps(r[1]) : r \in {r \in Range(parts[p].refs) : ~IsDelRef(r)}}
           dels == {Comps(r[1]) : r \in {r \in Range(parts[p].refs) : IsDelRef(r)}}
       IN NetLive((live \ dels) \cup adds, parts, p + 1)
(* every prefix of the parts leaves a conflict-free set of live names *)
PrefixesLegal(live, parts) == \A n \in DOMAIN parts : ~Conflict(NetLive(live, SubSeq(parts, 1, n), 1))
AllAdds(parts) == UNION {{Comps(r[1]) : r \in {r \in Range(parts[p].refs) : ~IsDelRef(r)}} : p \in DOMAIN parts}
TxnAccept(live, parts) == (\A a \in AllAdds(parts) : WellFormed(a)) /\ ~Conflict(NetLive(live, parts, 1))

(* C16, sequentially: after every call that returned, the directory holds no lock, no temporary, and exactly the listed tables *)
(* (other handles that still hold tables of an older version open are not the caller's residue: stale tables are removed   *)
(* by whoever delisted them, so the count of *.ref files equals the length of the list when every handle is current)       *)
Residue(ev, shape) == IF "residue" \in DOMAIN ev
                      THEN Fail(ev.residue.locks = 0 /\ ev.residue.tmps = 0, "C16_SeqNoLockNoTemp") \cup Fail(ev.residue.refs = Len(shape), "C16_SeqNoOrphanTable")
                      ELSE {}

(* the compaction an auto-compacting Add performed, read off the logged shape *)
AutoRanges(ts, shape) == {ij \in (DOMAIN ts) \X (DOMAIN ts) : ij[1] < ij[2] /\ Shape(Compact(ts, ij[1], ij[2], NoExpiry)) = shape}

Ids(ts) == [i \in DOMAIN ts |-> ts[i].id]
(* give the (at most one) table without an id, i.e. the one a compaction just produced, the id n *)
WithId(ts, n) == [q \in DOMAIN ts |-> IF "id" \in DOMAIN ts[q] THEN ts[q]
                                       ELSE [id |-> n, min |-> ts[q].min, max |-> ts[q].max, refs |-> ts[q].refs, logs |-> ts[q].logs]]

(* a caller that goes on after a refused table of a multi-table Addition and commits: which tables are accepted, one by one, *)
(* each validated against the stack extended by the tables accepted before it                                               *)
RECURSIVE GoOnAcc(_, _, _)
GoOnAcc(live, parts, k) ==
  IF k > Len(parts) THEN <<>>
  ELSE LET ok == TxnAccept(live, <<parts[k]>>) IN
       <<ok>> \o GoOnAcc(IF ok THEN NetLive(live, <<parts[k]>>, 1) ELSE live, parts, k + 1)

TAdd ==
  /\ Is("add")
  /\ LET h == E.h
         stale == Ids(loaded[h]) # Ids(tabs)
         legal == ~E.namecheck \/ TxnAccept(LiveNames(tabs), E.parts)
         \* A multi-table transaction whose final state is legal but which passes through a conflicting
         \* intermediate state (an earlier table conflicts, a later one resolves it) may be accepted or
         \* refused: the specification follows the code there (DESIGN.md 5.0).
         dontcare == E.namecheck /\ legal /\ ~PrefixesLegal(LiveNames(tabs), E.parts) /\ E.res \in {"ok", "rejected"}
         goon == "goon" \in DOMAIN E /\ E.goon
         accSeq == IF E.namecheck THEN GoOnAcc(LiveNames(tabs), E.parts, 1) ELSE [p \in DOMAIN E.parts |-> TRUE]
         partsEff == IF goon THEN [p \in DOMAIN E.parts |-> IF accSeq[p] THEN E.parts[p] ELSE [refs |-> <<>>, logs |-> <<>>]] ELSE E.parts
         accept == IF goon THEN TRUE ELSE IF dontcare THEN E.res = "ok" ELSE legal
         \* the caller chooses the update index of its tables: any index from the next one on is legal (a retried transaction
         \* prepared before a compaction emptied the stack carries a larger one)
         first == IF "idx" \in DOMAIN E /\ E.idx > NextIndex(tabs) THEN E.idx ELSE NextIndex(tabs)
         new == PartTabs(partsEff, first, nextTab)
         plain == tabs \o new
         \* a transaction prepared for an update index that is no longer the next one (the caller computed it before
         \* its handle was refreshed) must fail like a stale one: update indices only grow
         \* (a transaction without records returns before the index is looked at and commits nothing)
         lowidx == "idx" \in DOMAIN E /\ E.idx < NextIndex(tabs) /\ PartTabs(E.parts, NextIndex(tabs), nextTab) # <<>>
         ownRes == IF stale \/ lowidx THEN "lock" ELSE IF ~accept THEN "rejected" ELSE "ok"
         \* a transaction executed by the OTHER implementation (C15): the specification follows its outcome, so that
         \* the state both sides agree on is the state the final view is compared with; a disagreement about
         \* acceptance is recorded separately
         foreign == "foreign" \in DOMAIN E
         expRes == IF foreign THEN (IF E.res = "ok" THEN "ok" ELSE "rejected") ELSE ownRes
         ranges == IF E.auto /\ expRes = "ok" /\ E.dirshape # Shape(plain) THEN AutoRanges(plain, E.dirshape) ELSE {}
         after == IF expRes # "ok" THEN tabs
                  ELSE IF ranges # {} THEN (LET ij == CHOOSE ij \in ranges : TRUE IN
                                            WithId(Compact(plain, ij[1], ij[2], NoExpiry), nextTab + Len(new)))
                  ELSE plain
     IN
     /\ tabs' = after
     /\ nextTab' = nextTab + Len(new) + 1
     /\ loaded' = [loaded EXCEPT ![h] = IF expRes = "ok" \/ (expRes = "lock" /\ ~E.multi) THEN after ELSE @]
     /\ fails' = Cmp(E.res, IF foreign THEN E.res ELSE expRes, IF stale \/ lowidx THEN "C09_StaleAddMustFail" ELSE IF ~accept \/ E.res = "rejected" THEN "C12_AcceptIffLegal" ELSE "C04_AddResult")
          \cup (IF foreign THEN Cmp(E.res, ownRes, "C15_AcceptAgree") ELSE {})
          \cup Cmp(E.dirshape, Shape(after), IF expRes = "ok" THEN (IF E.auto THEN "C17_AutoCompactRange" ELSE "C04_StackAfterAdd") ELSE "C09_DirUnchanged")
          \cup Fail(E.res # "ok" \/ ~E.namecheck \/ ~Conflict(LiveNames(after)), "C12_NoConflict")
          \cup (IF goon /\ "accepted" \in DOMAIN E THEN Cmp(E.accepted, accSeq, "C12_AcceptIffLegal") ELSE {})
          \cup Residue(E, E.dirshape)
  /\ Step

TCompact ==
  /\ Is("compact")
  /\ LET h == E.h
         stale == Ids(loaded[h]) # Ids(tabs)
         i == E.first + 1  j == E.last + 1
         e == E.expiry
         noop == stale \/ j > Len(tabs) \/ j < i \/ (i >= j /\ ~E.hasexpiry)
         after == IF noop THEN tabs ELSE WithId(Compact(tabs, i, j, e), nextTab)
     IN
     /\ tabs' = after
     /\ nextTab' = nextTab + 1
     /\ loaded' = [loaded EXCEPT ![h] = IF noop THEN @ ELSE after]
     /\ fails' = Fail(E.res = "ok", "C04_CompactResult")
          \cup Cmp(E.dirshape, Shape(after), IF stale THEN "C09_StaleCompactNoop" ELSE "C07_StackAfterCompact")
          \cup Fail(noop \/ e # NoExpiry \/ ViewPreserved(tabs, after), "C07_SpecViewPreserved")
          \cup Fail(noop \/ ExpiryExact(tabs, after, e), "C13_SpecExpiryExact")
          \cup Residue(E, E.dirshape)
  /\ Step

(* what is on disk, decoded independently, is what the specification computed *)
TDisk ==
  /\ Is("disk")
  /\ fails' = Cmp(E.tables, Strip(tabs), IF E.after = "compact" THEN "C07_CompactedTables" ELSE "C14_TablesOnDisk")
  /\ UNCHANGED <<tabs, loaded, nextTab>> /\ Step

TView ==
  /\ Is("view")
  /\ LET ts == loaded[E.h] IN
     fails' = Fail(E.ok, "C10_Readable")
        \cup (IF E.ok THEN Cmp(E.refs, RefView(ts), E.tag \o "_RefView") ELSE {})
        \cup (IF E.ok THEN Cmp(E.logs, LogView(ts), E.tag \o "_LogView") ELSE {})
        \cup (IF E.ok /\ E.hasraw THEN Cmp(E.rawrefs, RawRefs(ts), "C03_RawRefs") ELSE {})
        \cup (IF E.ok /\ E.hasraw THEN Cmp(E.rawlogs, RawLogs(ts), "C03_RawLogs") ELSE {})
        \cup (IF "interleave" \in DOMAIN E THEN Cmp(E.interleave, "", "C03_StableResults") ELSE {})
        \* the same walk with one positional read of a table file failing: an error, or the same answer - never another answer
        \cup (IF "faulty" \in DOMAIN E THEN Cmp(E.faulty, "", "C03_FaultyReadAnswers") ELSE {})
  /\ UNCHANGED <<tabs, loaded, nextTab>> /\ Step

TSeekRef ==
  /\ Is("seekref")
  /\ LET ts == loaded[E.h]  view == IF E.raw THEN RawRefs(ts) ELSE RefView(ts) IN
     fails' = Fail(E.ok, "C03_SeekRef") \cup Cmp(E.refs, SeekRefIn(view, E.k), "C03_SeekRef")
  /\ UNCHANGED <<tabs, loaded, nextTab>> /\ Step

TSeekLog ==
  /\ Is("seeklog")
  /\ LET ts == loaded[E.h]  view == IF E.raw THEN RawLogs(ts) ELSE LogView(ts) IN
     fails' = Fail(E.ok, "C03_SeekLog") \cup Cmp(E.logs, SeekLogIn(view, E.k, E.i), "C03_SeekLog")
  /\ UNCHANGED <<tabs, loaded, nextTab>> /\ Step

TRefsFor ==
  /\ Is("refsfor")
  /\ LET ts == loaded[E.h] IN
     fails' = Fail(E.ok, "C11_RefsFor") \cup Cmp(E.refs, RefsForIn(RefView(ts), E.oid), "C11_RefsFor")
  /\ UNCHANGED <<tabs, loaded, nextTab>> /\ Step

TUpToDate ==
  /\ Is("uptodate")
  /\ LET h == E.h
         cur == Ids(loaded[h]) = Ids(tabs) IN
     fails' = Fail(E.res = cur, E.tag \o "_UpToDate") \cup Fail(E.next = NextIndex(loaded[h]), E.tag \o "_NextIndex")
  /\ UNCHANGED <<tabs, loaded, nextTab>> /\ Step

(* an explicit reload: the handle now holds the committed stack *)
TReload ==
  /\ Is("reload")
  /\ loaded' = [loaded EXCEPT ![E.h] = tabs]
  /\ fails' = Fail(E.res = "ok", "C10_ReloadFails")
  /\ UNCHANGED <<tabs, nextTab>> /\ Step

TClose ==
  /\ Is("close")
  /\ loaded' = [loaded EXCEPT ![E.h] = <<>>]
  /\ fails' = Fail(E.dirshape = Shape(tabs), "C16_CloseKeepsList")
  /\ UNCHANGED <<tabs, nextTab>> /\ Step

(* Clean removes files nobody lists.  Whatever the handle believes - in particular when another handle has compacted or added *)
(* tables since it last looked (C09: a stale handle's Clean does nothing or fails) - the listed stack stays as it is, every     *)
(* listed table stays in place, and the call succeeds or reports a lock failure.                                               *)
TClean ==
  /\ Is("clean")
  /\ LET stale == Ids(loaded[E.h]) # Ids(tabs) IN
     fails' = Fail(E.dirshape = Shape(tabs), IF stale THEN "C09_StaleCleanNoop" ELSE "C16_CleanKeepsList")
              \cup Fail(E.res \in {"ok", "lock"}, "C16_CleanSucceeds")
              \cup Fail(stale => E.res = "lock", "C09_StaleCleanNoop")
              \cup Residue(E, Shape(tabs))
  /\ UNCHANGED <<tabs, loaded, nextTab>> /\ Step

TDone == l > Len(Ev) /\ UNCHANGED vars

TNext == TOpen \/ TAdd \/ TCompact \/ TDisk \/ TView \/ TSeekRef \/ TSeekLog \/ TRefsFor \/ TUpToDate \/ TReload \/ TClose \/ TClean \/ TDone
TSpec == TInit /\ [][TNext]_vars

(* the single invariant: no check failed; a failure prints which, where *)
T_All == fails = {} \/ (PrintT(<<"VIOL", fails, Traces[tr].id, l - 1>>) /\ FALSE)
=============================================================================
