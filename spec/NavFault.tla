------------------------------ MODULE NavFault ------------------------------
(***************************************************************************)
(* C18, design obligation: the reader's index descent (reader.go           *)
(* seekIndexed) terminates on ARBITRARY index graphs - entries pointing at *)
(* their own block, at later blocks, at blocks of another kind, outside    *)
(* the file.  The rule that makes it terminate is the one the repaired     *)
(* reader enforces: an index entry may only lead to a block that lies      *)
(* BEFORE the index block holding it (children are written before their    *)
(* parents).  RuleOn = FALSE is the pinned reader, which loops.            *)
(*                                                                         *)
(* Every graph over N blocks is an initial state: a block is a data block  *)
(* ("d") or an index block with one or two child positions in 0..N+1.      *)
(***************************************************************************)
EXTENDS Naturals, Sequences, FiniteSets, TLC

CONSTANTS N, RuleOn

VARIABLE g
Blocks == {<<"d">>} \cup {<<"i", a>> : a \in 0..(N + 1)} \cup {<<"i", a, b>> : a \in 0..(N + 1), b \in 0..(N + 1)}
Init == g \in [1..N -> Blocks]
Next == UNCHANGED g
Spec == Init /\ [][Next]_g

(* one step of the descent from index block o through its k-th entry: the next INDEX block, or 0 when the
   descent ends there (a data block was reached, or the reader reports a format error) *)
StepTo(o, k) ==
  LET c == g[o][k + 1] IN
  IF RuleOn /\ c >= o THEN 0
  ELSE IF c < 1 \/ c > N THEN 0           \* outside the file: no block reader
  ELSE IF g[c][1] = "d" THEN 0
  ELSE c

IndexBlocks == {o \in 1..N : g[o][1] = "i"}
Entries(o) == 1..(Len(g[o]) - 1)
Succ(o) == {StepTo(o, k) : k \in Entries(o)} \ {0}

(* the index blocks reachable from a set of index blocks (any entry: the key decides which one is taken) *)
RECURSIVE Reach(_)
Reach(seen) ==
  LET new == UNION {Succ(o) : o \in seen} \ seen
  IN IF new = {} THEN seen ELSE Reach(seen \cup new)

(* a descent can run forever iff some index block can reach itself *)
Loops == \E s \in IndexBlocks : Succ(s) # {} /\ s \in Reach(Succ(s))
C18_DescentTerminates == ~Loops
=============================================================================
