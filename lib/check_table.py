"""Checks of the table family: C01 (read back), C02 (seek), C11 table level (RefsFor), C14 (well-formed files).

Every case = one table written by the real Writer under one configuration, read back by the real
Reader and decoded by the independent decoder; TLC validates the recorded case against TraceTable:
accept/reject of every writer call, scan = Norm(written), every seek = suffix, RefsFor = filter,
Layout!WellFormed(decoded file), Decode(file) = written.
"""
import json, os, random, re, shutil, sys, time, threading, collections, hashlib
import common as C, store as S

LEVEL = {"C01": "model_checking", "C02": "model_checking", "C11": "model_checking", "C14": "translation_validation"}

PROP_CHECKS = {
    "C01": ["C01_AcceptReject", "C01_Close", "C01_ScanFails", "C01_RefsReadBack", "C01_LogsReadBack", "C01_Limits", "C01_StableResults", "C14_ByteLevel"],
    "C02": ["C02_SeekFails", "C02_SeekRef", "C02_ReadRef", "C02_SeekLog", "C02_ReadLogAt"],
    "C11": ["C11_RefsForFails", "C11_TableRefsFor"],
    "C14": ["C14_ByteLevel", "C14_Contiguous", "C14_Types", "C14_Restarts", "C14_Keys", "C14_Index", "C14_Footer", "C14_ObjIndex",
            "C14_UpdateIdx", "C14_DecodeRefs", "C14_DecodeLogs", "C14_HeaderLimits", "C01_Close", "C01_AcceptReject", "C01_RefsReadBack"],
}

VOL = {"quick": {"C01": 500, "C02": 400, "C11": 400, "C14": 400}, "thorough": {"C01": 12000, "C02": 8000, "C11": 8000, "C14": 8000}}


def hexhash(rng, hs, pool=None):
    if pool is not None and pool and rng.random() < 0.7:
        return rng.choice(pool)
    return "".join("%02x" % rng.randrange(256) for _ in range(hs))


def gen_names(rng, n):
    """n distinct NUL-free names, rich in shared prefixes, bytewise sortable"""
    style = rng.choice(["heads", "mixed", "long", "deep", "utf8"])
    names = set()
    while len(names) < n:
        if style == "heads":
            names.add("refs/heads/%s%04d" % (rng.choice(["", "b", "branch-", "x/"]), rng.randrange(10 * n + 10)))
        elif style == "long":
            names.add("refs/heads/" + "p" * rng.choice([1, 5, 20, 40]) + "%05d" % rng.randrange(10 * n + 10))
        elif style == "utf8":
            # multi-byte characters whose encodings share their leading bytes: keys that first differ INSIDE a character
            names.add("refs/heads/" + rng.choice(["caf\u00e9", "caf\u00e8", "caf\u00ea", "na\u00efve", "\u65e5\u672c", "\u65e5\u6728", "\u65e6", "x"]) + "%02d" % rng.randrange(n + 3)
                      + rng.choice(["", "\u00e9", "\u00e8"]))
        elif style == "deep":
            names.add("/".join(rng.choice(["a", "b", "cc", "d0"]) for _ in range(rng.randint(1, 5))) + "%03d" % rng.randrange(5 * n + 5))
        else:
            names.add(rng.choice(["HEAD%d", "refs/tags/v%d", "refs/heads/m%d", "refs/remotes/origin/r%d", "a%d", "zz%d"]) % rng.randrange(10 * n + 10))
    return sorted(names)


def gen_case(rng, cid, focus):
    hash_ = rng.choice(["sha1", "s256"])
    hs = 20 if hash_ == "sha1" else 32
    big = rng.random() < (0.25 if focus != "C11" else 0.5)
    nrefs = rng.choice([0, 1, 2, 3, 5, 8, 13]) if not big else rng.choice([30, 60, 120, 250, 400])
    reflogonly = focus == "C11" and rng.random() < 0.06      # a table without a ref section: RefsFor answers nothing, for every object id
    if focus == "C11":
        nrefs = 0 if reflogonly else max(nrefs, 3)
    nlogn = rng.choice([0, 0, 1, 2, 4]) if not big else rng.choice([0, 10, 40, 100])
    if reflogonly:
        nlogn = max(nlogn, 2)
    if focus == "C02" and rng.random() < 0.5:
        nlogn = max(nlogn, 3)
    names = gen_names(rng, max(nrefs, nlogn, 1) + 3)
    # values around the boundaries of the varint encoding (1 byte: 0..127, 2 bytes: ..16511, 3 bytes: ..2113663) matter
    VB = [127, 128, 129, 16383, 16384, 16385, 16500, 16511, 16512, 16513, 2113663, 2113664, 2113665]
    mn = rng.choice([0, 0, 1, 5, 1000])
    mx = mn + rng.choice([0, 1, 4, 100, 100, 17000, 2200000])
    exact = rng.random() < 0.5
    pool = [hexhash(rng, hs) for _ in range(rng.choice([1, 2, 3, 6, 40]))]
    if focus == "C11" and rng.random() < 0.5:
        # object ids sharing long prefixes
        # (SHA-256 ids sharing 31 bytes are the known finding probed by kf_case(); the random domain stays below)
        base = hexhash(rng, hs)
        pool = [base[:rng.choice([2, 6, 20, min(2 * hs - 2, 60)])] + hexhash(rng, hs) for _ in range(4)]
        pool = [p[:2 * hs] for p in pool]
    refs = []
    for n in sorted(rng.sample(names, min(nrefs, len(names)))):
        x = rng.random()
        if x < 0.1:
            v = ["d", "", ""]
        elif x < 0.6:
            v = ["v", hexhash(rng, hs, pool), ""]
        elif x < 0.85:
            v = ["p", hexhash(rng, hs, pool), hexhash(rng, hs, pool)]
        else:
            v = ["s", rng.choice(names), ""]
        idx = rng.randint(mn, mx)
        if mx - mn > 1000 and rng.random() < 0.6:
            idx = mn + rng.choice([b for b in VB if b <= mx - mn])
        refs.append({"n": n, "i": idx, "v": v})
    # a few calls the writer must refuse (outside its domain): they must not disturb the rest
    if rng.random() < 0.15 and refs:
        refs[rng.randrange(len(refs))]["i"] = mx + 1 + rng.randrange(3)
    logs = []
    for n in sorted(rng.sample(names, min(nlogn, len(names)))):
        idxs = sorted(rng.sample(range(mn, mx + 1), min(mx - mn + 1, rng.choice([1, 1, 2, 3]))), reverse=True)
        for i in idxs:
            if rng.random() < 0.15:
                logs.append({"n": n, "i": i, "del": True})
                continue
            msg = rng.choice(["", "commit: initial", "trailing newline\n", "  spaces  ", "x" * rng.choice([1, 30, 90])])
            if exact and rng.random() < 0.3:
                msg = rng.choice(["two\nlines", "a\nb\n", "\n", " lead"])
            elif not exact and rng.random() < 0.05:
                msg = "two\nlines"     # refused without ExactLogMessage
            logs.append({"n": n, "i": i, "del": False, "old": rng.choice(["", hexhash(rng, hs, pool)]), "new": rng.choice(["", hexhash(rng, hs, pool)]),
                         "user": rng.choice(["", "A U Thor", "x"]), "email": rng.choice(["", "a@example.com"]),
                         "time": rng.choice([0, 1, 1600000000, (1 << 31) - 1] + VB), "tz": rng.choice([0, 60, -480, 330, -1, 32767, -32768]), "msg": msg})
    blen = lambda x: len(x.encode("utf-8"))
    maxrec = max([blen(r["n"]) + 2 * hs + blen(r["v"][1] if r["v"][0] == "s" else "") + 16 for r in refs] +
                 [blen(l["n"]) + 2 * hs + 9 + blen(l.get("msg", "")) + blen(l.get("user", "")) + blen(l.get("email", "")) + 30 for l in logs] + [64])
    # (blocks above the default 4 KiB too: padding runs longer than a default block)
    sizes = [b for b in (96, 128, 192, 256, 384, 512, 1024, 4096, 8192, 16384, 40000) if b >= maxrec + 60]
    blocksize = rng.choice(sizes + [0, 0]) if sizes else 0
    # a record larger than a whole block must be refused by the writer (and must not disturb its neighbours)
    if blocksize and blocksize <= 1024 and len(refs) >= 3 and rng.random() < 0.12:
        k = rng.randrange(1, len(refs))
        refs[k]["v"] = ["s", "refs/heads/" + "T" * (blocksize + rng.randint(1, 40)), ""]
        refs[k]["oversize"] = True
    case = {"id": cid, "blocksize": blocksize, "restart": rng.choice([0, 1, 2, 3, 5, 16]), "unaligned": rng.random() < 0.35,
            "skipindex": rng.random() < 0.3, "hash": hash_, "exact": exact, "min": mn, "max": mx, "refs": refs, "logs": logs,
            "seekrefs": [], "seeklogs": [], "oids": [], "universe": [], "layout": True}
    # seek keys: every class
    keys = set([""])
    present = [r["n"] for r in refs]
    for n in (present if len(present) <= 12 else rng.sample(present, 12) + present[:2] + present[-2:]):
        keys.update([n, n + "\x01", n + "/", n[:-1], n[:max(1, len(n) // 2)]])
        if ord(n[-1]) > 1:
            keys.add(n[:-1] + chr(ord(n[-1]) - 1) + "\x7f")
    keys.update(["\x7f\x7f\x7f", "refs/", "A", rng.choice(names)])
    keys = sorted(keys)
    if len(keys) > 40:
        keys = rng.sample(keys, 40)
    case["seekrefs"] = keys
    lognames = sorted({l["n"] for l in logs})
    sl = []
    for n in (lognames if len(lognames) <= 6 else rng.sample(lognames, 6)) + [rng.choice(names), ""]:
        idxs = [l["i"] for l in logs if l["n"] == n] or [mn]
        for i in {0, mn, mx, mx + 1, min(idxs), max(idxs), max(0, min(idxs) - 1), (1 << 31) - 1}:
            sl.append({"n": n, "i": i})
        sl.append({"n": n + "\x01", "i": mx})
    case["seeklogs"] = sl
    oids = sorted({r["v"][1] for r in refs if r["v"][0] in ("v", "p")} | {r["v"][2] for r in refs if r["v"][0] == "p"})
    if len(oids) > 12:
        oids = rng.sample(oids, 12)
    case["oids"] = oids + [hexhash(rng, hs), "00" * hs, "ff" * hs]
    return case


KF_OBJID = "sha256-object-ids-sharing-31-bytes"


def kf_case():
    """Known finding probe: with SHA-256, two object ids sharing their first 31 bytes need an abbreviation length of
    32, which does not fit the 5 bits of the footer field: the object section cannot be found."""
    hs = 32
    a = "ab" * 31 + "01"
    b = "ab" * 31 + "02"
    refs = [{"n": "refs/heads/%s%03d" % ("k" * 40, j), "i": 1, "v": ["v", a if j % 2 else b, ""]} for j in range(40)]
    return {"id": "kf-objidlen32", "blocksize": 256, "restart": 16, "unaligned": False, "skipindex": False, "hash": "s256", "exact": False,
            "min": 1, "max": 1, "refs": refs, "logs": [], "seekrefs": [""], "seeklogs": [], "oids": [a, b], "universe": [], "layout": True}


def big_case():
    """more records in ONE block than a restart table can address (65535): 66000 short refs, restart interval 1, 4 MiB block"""
    refs = [{"n": "r%05d" % j, "i": 1, "v": ["d", "", ""]} for j in range(66000)]
    return {"id": "big-restart-cap", "blocksize": 4 << 20, "restart": 1, "unaligned": False, "skipindex": True, "hash": "sha1", "exact": False,
            "min": 1, "max": 1, "refs": refs, "logs": [], "seekrefs": [], "seeklogs": [], "oids": [], "universe": [], "layout": False, "big": True}


def big_case2():
    """blocks above 64 KiB, several of them, unpadded: 15000 refs with 128 KiB blocks"""
    refs = [{"n": "refs/heads/b%06d" % j, "i": 2, "v": ["v", "%040x" % (j * 2654435761 % (1 << 160)), ""]} for j in range(15000)]
    return {"id": "big-large-blocks", "blocksize": 128 << 10, "restart": 16, "unaligned": True, "skipindex": True, "hash": "sha1", "exact": False,
            "min": 2, "max": 2, "refs": refs, "logs": [], "seekrefs": [], "seeklogs": [], "oids": [], "universe": [], "layout": False, "big": True}


def padding_cases(seed):
    """padded layouts whose padding runs are longer than a default block (4096 bytes): blocks of 8-64 KiB that stay half empty
    because the records are large, and a sparse last ref block of a multi-block ref section followed by index, object index and logs"""
    out = []
    rng = random.Random(seed * 977 + 5)
    for k, (bs, n, tl, nlogs, skip) in enumerate([(16384, 3, 9000, 0, True), (8192, 4, 4500, 2, True), (65536, 3, 40000, 0, False), (16384, 5, 8300, 3, False)]):
        refs = [{"n": "refs/sym/%d" % j, "i": 1, "v": ["s", "refs/heads/" + "x" * (tl + rng.randint(0, 50)), ""]} for j in range(n)]
        if not skip:
            refs.append({"n": "refs/zval", "i": 1, "v": ["v", "%040x" % 77, ""]})
        logs = [{"n": "refs/sym/%d" % j, "i": 1, "del": False, "old": "", "new": "%040x" % (j + 1), "user": "A U Thor", "email": "a@example.com",
                 "time": 1600000000, "tz": 60, "msg": "update"} for j in range(nlogs)]
        out.append({"id": "padding-%d" % k, "blocksize": bs, "restart": 16, "unaligned": False, "skipindex": skip, "hash": "sha1", "exact": False,
                    "min": 1, "max": 1, "refs": refs, "logs": logs, "seekrefs": ["", "refs/sym/1", "refs/sym/2", "refs/t"], "seeklogs": [{"n": "refs/sym/1", "i": 1}] if nlogs else [],
                    "oids": [], "universe": [], "layout": True})
    refs = [{"n": "refs/heads/branch%05d" % j, "i": 7, "v": ["v", "%040x" % (j * 2654435761 % (1 << 160)), ""]} for j in range(2300)]
    logs = [{"n": "refs/heads/branch%05d" % j, "i": 7, "del": False, "old": "%040x" % 1, "new": "%040x" % (j + 2), "user": "A U Thor", "email": "a@example.com",
             "time": 1600000000, "tz": 60, "msg": "update"} for j in range(5)]
    out.append({"id": "padding-sparse-last", "blocksize": 16384, "restart": 16, "unaligned": False, "skipindex": False, "hash": "sha1", "exact": False,
                "min": 7, "max": 7, "refs": refs, "logs": logs, "seekrefs": [], "seeklogs": [], "oids": [], "universe": [], "layout": False, "big": True})
    return out


def incompressible_cases(seed):
    """log blocks that deflate to MORE bytes than they hold (distinct random hashes, random message bytes, small blocks):
    the header of a log block gives the inflated size only, a reader must fetch enough for the deflated form"""
    out = []
    for k, (hs, hname, bs, n) in enumerate([(20, "sha1", 192, 4), (20, "sha1", 256, 9), (32, "s256", 256, 5), (32, "s256", 512, 14), (20, "sha1", 0, 40)]):
        rng = random.Random(seed * 131 + k)
        hx = lambda: "".join(rng.choice("0123456789abcdef") for _ in range(2 * hs))
        logs = [{"n": "refs/heads/%s" % "".join(rng.choice("abcdefghijklmnopqrstuvwxyz0123456789") for _ in range(6)), "i": 5 + rng.randint(0, 20000), "del": False,
                 "old": hx(), "new": hx(), "user": "".join(rng.choice("abcdefghijklmnopqrstuvwxyz") for _ in range(3)), "email": "", "time": rng.randint(1, 1 << 31),
                 "tz": rng.randint(-700, 700), "msg": "".join(rng.choice("qwertyuiopasdfghjklzxcvbnm1234567890") for _ in range(rng.randint(0, 6)))} for _ in range(n)]
        logs.sort(key=lambda l: (l["n"], -l["i"]))
        out.append({"id": "incompressible-%d" % k, "blocksize": bs, "restart": 16, "unaligned": bool(k % 2), "skipindex": True, "hash": hname, "exact": True,
                    "min": 5, "max": 20100, "refs": [], "logs": logs, "seekrefs": [""], "seeklogs": [{"n": l["n"], "i": l["i"]} for l in logs[:6]] + [{"n": "", "i": 0}],
                    "oids": [], "universe": [], "layout": True})
    # one entry whose message is random BYTES, its length swept so that the block fills up to its last bytes: the deflated form
    # then exceeds the block size by the deflater's fixed overhead (16 bytes with Go's zlib)
    rng = random.Random(seed * 733 + 5)
    for bs in (256, 1024, 4096):
        for fill in sorted(set([bs - 112, bs - 105, bs - 100, bs - 96] + [bs - 120 + rng.randint(0, 40) for _ in range(2)])):
            msg = bytes(rng.randrange(256) for _ in range(max(8, fill)))
            k = len(out)
            out.append({"id": "incompressible-%d" % k, "blocksize": bs, "restart": 16, "unaligned": False, "skipindex": True, "hash": "sha1", "exact": True,
                        "min": 1, "max": 1, "refs": [],
                        "logs": [{"n": "r", "i": 1, "del": False, "old": bytes(rng.randrange(256) for _ in range(20)).hex(),
                                  "new": bytes(rng.randrange(256) for _ in range(20)).hex(), "user": "", "email": "", "time": 1, "tz": 0, "msg": "", "msghex": msg.hex()}],
                        "seekrefs": [""], "seeklogs": [{"n": "r", "i": 1}, {"n": "", "i": 0}], "oids": [], "universe": [], "layout": True})
    # ... and the same inside an INDEXED log section (more than three log blocks): the blocks are then reached through
    # the index, by a different call path than a scan
    for bs in (256, 512):
        logs = []
        for j, fill in enumerate(range(bs - 104, bs - 75, 1)):   # (longer ones do not fit a block: the writer refuses them)
            msg = bytes(rng.randrange(256) for _ in range(fill))
            logs.append({"n": "refs/l%02d" % j, "i": 1, "del": False, "old": bytes(rng.randrange(256) for _ in range(20)).hex(),
                         "new": bytes(rng.randrange(256) for _ in range(20)).hex(), "user": "", "email": "", "time": 1, "tz": 0,
                         "msg": "", "msghex": msg.hex()})
        k = len(out)
        out.append({"id": "incompressible-%d" % k, "blocksize": bs, "restart": 16, "unaligned": False, "skipindex": True, "hash": "sha1", "exact": True,
                    "min": 1, "max": 1, "refs": [], "logs": logs, "seekrefs": [""], "seeklogs": [{"n": l["n"], "i": 1} for l in logs] + [{"n": "", "i": 0}],
                    "oids": [], "universe": [], "layout": True})
    return out


def signature(check, trace, line):
    if trace["id"] == "kf-objidlen32":
        return KF_OBJID
    ev = trace["events"][line - 1] if 0 < line <= len(trace["events"]) else {}
    return "%s@%s" % (check, ev.get("op", "?"))


def run_cases(cases, drv, sc, nproc=16, chunk=20):
    import concurrent.futures as cf, subprocess
    chunks = [cases[i:i + chunk] for i in range(0, len(cases), chunk)]

    def one(i):
        jp, op = os.path.join(sc, "tc-%d.json" % i), os.path.join(sc, "to-%d.json" % i)
        with open(jp, "w") as f:
            json.dump(chunks[i], f)
        p = subprocess.run([drv, jp, op], stdout=subprocess.PIPE, stderr=subprocess.STDOUT, text=True, timeout=900, env=dict(os.environ, TMPDIR=sc))
        if p.returncode != 0:
            raise C.Inconclusive("table driver failed: " + p.stdout[-2000:])
        with open(op) as f:
            res = json.load(f)
        os.remove(jp)
        os.remove(op)
        return res

    with cf.ThreadPoolExecutor(max_workers=nproc) as ex:
        return [o for res in ex.map(one, range(len(chunks))) for o in res]


def run(pid, tier, merge=False):
    t0 = time.time()
    seed = C.seed()
    rng = random.Random(seed * 1000003 + int(pid[1:]) * 7)
    sc = C.mkscratch(pid + "t")
    known = C.known_findings().get(pid, {})
    try:
        mod = C.assemble(sc)
        drv = C.gobuild(mod, "drvtable", os.path.join(sc, "drvtable"))
        cases = [gen_case(rng, "%s-%d" % (pid.lower(), i), pid) for i in range(VOL[tier][pid])]
        import tablemc
        exh = []

        def exhaustive():
            exh.extend(tablemc.exhaustive(pid, tier, sc))

        th = threading.Thread(target=exhaustive)
        th.start()
        cases += tablemc.shape_cases(pid, tier, sc, seed)
        if pid in ("C11", "C14"):
            cases.append(kf_case())
        if pid in ("C01", "C02", "C14"):
            cases += incompressible_cases(seed)
        if pid in ("C01", "C02", "C14"):
            cases += padding_cases(seed)
        if pid in ("C01", "C14"):
            cases.append(big_case())
            cases.append(big_case2())
        outs = run_cases(cases, drv, sc)
        byid = {o["id"]: o for o in outs}
        cbyid = {c["id"]: c for c in cases}
        viols, rej, vstats = S.validate(outs, sc, module="TraceTable", chunk=15, jvms=12)
        th.join()

        mine = [v for v in viols if v[0] in PROP_CHECKS[pid]]
        others = [v for v in viols if v[0] not in PROP_CHECKS[pid]]
        nviol, seen_known = 0, set()
        bysig = collections.OrderedDict()
        for chk, tid, line in mine:
            bysig.setdefault(signature(chk, byid[tid], line), []).append((chk, tid, line))
        for sig, lst in bysig.items():
            if sig in known:
                seen_known.add(sig)
                print("KNOWN-FINDING: property=%s %s (%s)" % (pid, known[sig], sig))
                continue
            chk, tid, line = lst[0]
            # prefer the smallest failing case as the replay
            lst2 = sorted(lst, key=lambda v: len(cbyid[v[1]]["refs"]) + len(cbyid[v[1]]["logs"]))
            chk, tid, line = lst2[0]
            ev = byid[tid]["events"][line - 1]
            path = C.save_replay(pid, "%s-%d" % (chk, seed), {"property": pid, "check": chk, "line": line, "signature": sig, "count": len(lst),
                                                                 "case": cbyid[tid], "event": {k: v for k, v in ev.items() if k != "blocks"}})
            print("VIOLATION property=%s replay=%s" % (pid, path))
            c = cbyid[tid]
            print("  %s failed at event %d (%s) of table %s [%d refs, %d logs, blocksize %s, restart %s, unaligned %s, %s]; %d tables with this signature%s" %
                  (chk, line, ev.get("op"), tid, len(c["refs"]), len(c["logs"]), c["blocksize"], c["restart"], c["unaligned"], c["hash"], len(lst),
                   ("; error: " + str(ev.get("err"))[:150]) if ev.get("err") else ""))
            nviol += 1
        states = trans = 0
        for r in exh:
            states += r["distinct"]
            trans += r["generated"]
            if r["rc"] == -9:
                if C.within_budget(r, tier):
                    continue
                raise C.Inconclusive("exhaustive TLC run timed out: " + r.get("name", ""))
            inv, _ = C.tlc_violations(r["out"])
            if inv or "is violated" in r["out"]:
                raise C.Inconclusive("the specification %s violates %s: specification defect\n%s" % (r.get("name"), inv, r["out"][-2000:]))
            if "No error has been found" not in r["out"]:
                raise C.Inconclusive("TLC failed on %s:\n%s" % (r.get("name"), r["out"][-3000:]))
        if rej and nviol == 0:
            raise C.Inconclusive("cases rejected by TraceTable (recorder mismatch): %s" % rej[:3])

        # layout features reached (vacuity guard): index levels, object index, sections
        feats = collections.Counter()
        for o in outs:
            for e in o["events"]:
                if e["op"] == "layout":
                    secs = {b["sec"] for b in e["blocks"]}
                    ni = {s: sum(1 for b in e["blocks"] if b["sec"] == s and b["type"] == "i") for s in "rog"}
                    feats["tables"] += 1
                    feats["sections:" + "".join(sorted(secs))] += 1
                    for s in "rog":
                        if ni[s] == 1:
                            feats["index1:" + s] += 1
                        elif ni[s] > 1:
                            feats["indexN:" + s] += 1
                    if any(o2[1] == [] for b in e["blocks"] for o2 in b["objs"]):
                        feats["objindex_truncated"] += 1
        sample = {k: v for k, v in cases[0].items() if k in ("id", "blocksize", "restart", "unaligned", "skipindex", "hash", "exact", "min", "max")}
        sample["refs"], sample["logs"], sample["seekrefs"] = cases[0]["refs"][:3], cases[0]["logs"][:2], cases[0]["seekrefs"][:6]
        nq = sum(1 for o in outs for e in o["events"] if e["op"] in ("seekref", "seeklog", "refsfor"))
        cov = dict(states=max(states, 1), transitions=max(trans, 1), traces_validated_against_impl=len(outs) - len(set(v[1] for v in mine)),
                   programs=len(outs), disagreements_checked=vstats["events"], samples=[sample],
                   exhaustive=bool(exh), exhaustive_jobs=[dict(name=r.get("name"), distinct=r["distinct"], generated=r["generated"], wall=round(r["wall"], 1), complete=not r.get("incomplete", False)) for r in exh],
                   tables=len(outs), queries_validated=nq, events_validated=vstats["events"], layout_features=dict(feats),
                   checks=PROP_CHECKS[pid], other_check_failures=len(others), known_findings_seen=sorted(seen_known))
        if merge:
            p = os.path.join(C.evidence_dir(), pid + ".json")
            with open(p) as f:
                ev = json.load(f)
            ev["coverage"]["table_level"] = cov
            ev["coverage"]["traces_validated_against_impl"] += cov["traces_validated_against_impl"]
            ev["coverage"]["states"] += states
            ev["coverage"]["transitions"] += trans
            ev["violations"] += nviol
            ev["wall_s"] = round(ev["wall_s"] + time.time() - t0, 2)
            with open(p, "w") as f:
                json.dump(ev, f, indent=1, sort_keys=True)
        else:
            C.write_evidence(pid, tier, LEVEL[pid], cov, time.time() - t0, nviol,
                             assumptions=["names NUL-free; update indices < 2^31 in what TLC evaluates",
                                          "byte-level well-formedness (CRC, varints, zlib, padding bytes) is decided by the independent decoder fmtdec",
                                          "records are small enough to fit the configured block size"])
        print("%s %s (tables): %d spec states, %d tables, %d queries, %d violations, %.1fs  features=%s" %
              (pid, tier, states, len(outs), nq, nviol, time.time() - t0, dict(feats)))
        return 1 if nviol else 0
    finally:
        shutil.rmtree(sc, ignore_errors=True)


def replay(pid, path):
    with open(path) as f:
        rp = json.load(f)
    sc = C.mkscratch(pid + "-replay")
    try:
        mod = C.assemble(sc)
        drv = C.gobuild(mod, "drvtable", os.path.join(sc, "drvtable"))
        outs = run_cases([rp["case"]], drv, sc)
        viols, rej, _ = S.validate(outs, sc, module="TraceTable", jvms=1, debug=True)
        mine = [v for v in viols if v[0] in PROP_CHECKS[pid]]
        for v in mine:
            print("VIOLATION property=%s replay=%s" % (pid, path))
            print("  %s at event %d" % (v[0], v[2]))
        return 1 if mine else 0
    finally:
        shutil.rmtree(sc, ignore_errors=True)
