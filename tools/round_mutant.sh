#!/bin/bash
# usage: round_mutant.sh <dir> [check ids...]   confirm a seeded change (patch applies to HEAD, suite passes with it, demo fails with it
# and passes without) and run the quick tier of the named checks (default: its property's) against a scratch copy; writes <dir>/result.txt
d=${1%/}; shift
id=$(basename $d); pid=${id%%-*}
checks="$@"; [ -z "$checks" ] && checks=$pid
export GOFLAGS=-mod=mod GOPROXY=off GOSUMDB=off GOTOOLCHAIN=local
name=$(python3 -c "
import json,re,sys
m=json.load(open('$d/meta.json'))
t=re.findall(r'-run\s+[\'\"]?([^\s\'\"]+)', m.get('demo',''))
print(t[0] if t else '')")
[ -z "$name" ] && name=$(grep -o 'func Test[A-Za-z0-9_]*' $d/demo_test.go | head -1 | sed 's/func //')
race=""; grep -q '\-race' $d/meta.json && race="-race"
wt=/tmp/wt/verify-$id
git -C /repo worktree add --detach $wt HEAD >/dev/null 2>&1 || { echo "worktree failed" > $d/result.txt; exit 2; }
(
cd $wt
if ! git apply --3way $d/patch.diff >/dev/null 2>&1 && ! git apply $d/patch.diff >/dev/null 2>&1; then echo "RESULT apply=FAIL"; exit 3; fi
git diff HEAD > $d/patch.rebased.diff
suite=$(go test -vet=off -count=1 ./... 2>&1 | tail -3 | grep -c "^ok")
cp $d/demo_test.go ./zz_demo_test.go
with=$(timeout 600 go test -vet=off -count=1 $race -run "$name" . 2>&1 | tail -1 | grep -c "^ok")
git reset -q --hard HEAD
without=$(timeout 600 go test -vet=off -count=1 $race -run "$name" . 2>&1 | tail -1 | grep -c "^ok")
echo "RESULT apply=ok suite_passes_with=$suite demo_passes_with=$with demo_passes_without=$without test=$name"
) > $d/result.txt 2>&1
git -C /repo worktree remove --force $wt >/dev/null 2>&1
if grep -q "suite_passes_with=1 demo_passes_with=0 demo_passes_without=1" $d/result.txt; then
  /verif/tools/try_mutant_copy.sh $d/patch.rebased.diff $checks >> $d/result.txt 2>&1
fi
echo "$id: $(tr '\n' ' ' < $d/result.txt | cut -c1-700)"
