---------------------------- MODULE StackProto ----------------------------
(* PROTOTYPE for sizing only: stack.go at filesystem-operation granularity *)
EXTENDS Naturals, Sequences, FiniteSets, TLC, SequencesExt, Functions

CONSTANTS Handles,      \* e.g. {1,2}
          MaxOps,       \* API calls per handle
          MaxIds,       \* bound on table ids
          FixRelock,    \* TRUE: model the repaired compaction (re-check + rebase after relock, no foreign unlock)
          FixReuse,     \* TRUE: failed reload does not close reused readers
          InitN, CrashOn

NoH == 0

VARIABLES
  list,        \* Seq of table ids: content of tables.list ; listExists
  listExists,
  refs,        \* set of table ids existing as *.ref
  tmps,        \* set of table ids existing as *.reftmp
  info,        \* id -> [min, max, txns]
  nextId,
  lockIno,     \* inode at path tables.list.lock (0 = none)
  inoOwner,    \* inode -> creator handle
  inoContent,  \* inode -> seq of ids written
  nextIno,
  tlock,       \* id -> creator of <id>.ref.lock (0 none)
  pc, loc,     \* per handle
  stack,       \* per handle in-memory seq of ids
  closedRd,    \* per handle set of ids whose reader was closed though still in stack
  opsLeft,
  committed,   \* seq of txn ids in commit order
  acked,       \* set of txn ids whose Add returned success
  failed,      \* set of txn ids whose Add returned failure
  nextTxn,
  badUnlock,   \* history: some handle removed/renamed a lock inode it does not own
  versions     \* history: set of all contents tables.list ever had

vars == <<list, listExists, refs, tmps, info, nextId, lockIno, inoOwner, inoContent, nextIno, tlock,
          pc, loc, stack, closedRd, opsLeft, committed, acked, failed, nextTxn, badUnlock, versions>>

Ids == 1..MaxIds

L0 == [op |-> "none", txn |-> 0, id |-> 0, names |-> <<>>, ino |-> 0, holdPath |-> FALSE,
       first |-> 0, last |-> 0, i |-> 0, subs |-> {}, want |-> <<>>, opened |-> {}, before |-> <<>>, after |-> "ret", ok |-> TRUE, retry |-> 0]

Init ==
  /\ list = [i \in 1..InitN |-> i] /\ listExists = (InitN > 0) /\ refs = 1..InitN /\ tmps = {}
  /\ info = [i \in Ids |-> IF i <= InitN THEN [min |-> i, max |-> i, txns |-> {100+i}] ELSE [min |-> 0, max |-> 0, txns |-> {}]]
  /\ nextId = InitN + 1 /\ lockIno = 0 /\ inoOwner = <<>> /\ inoContent = <<>> /\ nextIno = 1
  /\ tlock = [i \in Ids |-> NoH]
  /\ pc = [h \in Handles |-> "idle"] /\ loc = [h \in Handles |-> L0]
  /\ stack = [h \in Handles |-> [i \in 1..InitN |-> i]] /\ closedRd = [h \in Handles |-> {}]
  /\ opsLeft = [h \in Handles |-> MaxOps]
  /\ committed = [i \in 1..InitN |-> 100+i] /\ acked = {} /\ failed = {} /\ nextTxn = 1
  /\ badUnlock = FALSE /\ versions = {[i \in 1..InitN |-> i]}

Pending == Cardinality({g \in Handles : pc[g] \notin {"idle","crashed"} /\ loc[g].id = 0 /\ loc[g].op \in {"add","compact"}})
Room == nextId + Pending <= MaxIds
NextIdx(h) == IF stack[h] = <<>> THEN 1 ELSE info[Last(stack[h])].max + 1
Set(h, f, v) == [loc EXCEPT ![h][f] = v]
Goto(h, p) == pc' = [pc EXCEPT ![h] = p]
UNCH_FS == UNCHANGED <<list, listExists, refs, tmps, info, nextId, lockIno, inoOwner, inoContent, nextIno, tlock>>
UNCH_H == UNCHANGED <<committed, acked, failed, nextTxn, badUnlock, versions>>

(* ---------------- API call starts ---------------- *)
StartAdd(h) ==
  /\ pc[h] = "idle" /\ opsLeft[h] > 0 /\ Room
  /\ opsLeft' = [opsLeft EXCEPT ![h] = @ - 1]
  /\ loc' = [loc EXCEPT ![h] = [L0 EXCEPT !.op = "add", !.txn = nextTxn]]
  /\ nextTxn' = nextTxn + 1
  /\ Goto(h, "a_lock")
  /\ UNCH_FS /\ UNCHANGED <<stack, closedRd, committed, acked, failed, badUnlock, versions>>

StartCompact(h) ==
  /\ pc[h] = "idle" /\ opsLeft[h] > 0 /\ Room
  /\ \E f \in 1..Len(stack[h]) : \E l \in f+1..Len(stack[h]) :
        loc' = [loc EXCEPT ![h] = [L0 EXCEPT !.op = "compact", !.first = f, !.last = l]]
  /\ opsLeft' = [opsLeft EXCEPT ![h] = @ - 1]
  /\ Goto(h, "k_lock")
  /\ UNCH_FS /\ UNCH_H /\ UNCHANGED <<stack, closedRd>>

StartReload(h) ==
  /\ pc[h] = "idle" /\ opsLeft[h] > 0
  /\ opsLeft' = [opsLeft EXCEPT ![h] = @ - 1]
  /\ loc' = [loc EXCEPT ![h] = [L0 EXCEPT !.op = "reload", !.after = "ret"]]
  /\ Goto(h, "r_read")
  /\ UNCH_FS /\ UNCH_H /\ UNCHANGED <<stack, closedRd>>

(* ---------------- lock helpers ---------------- *)
CreateLock(h) ==   \* O_EXCL create at path; caller checked lockIno = 0
  /\ lockIno' = nextIno /\ nextIno' = nextIno + 1
  /\ inoOwner' = Append(inoOwner, h) /\ inoContent' = Append(inoContent, <<>>)

RemoveLockPath(h) ==  \* unlink whatever is at the path
  /\ lockIno' = 0
  /\ badUnlock' = (badUnlock \/ (lockIno # 0 /\ inoOwner[lockIno] # h))

(* ---------------- Add ---------------- *)
A_Lock(h) ==
  /\ pc[h] = "a_lock"
  /\ IF lockIno = 0
     THEN /\ CreateLock(h)
          /\ loc' = Set(h, "ino", nextIno)
          /\ Goto(h, "a_uptodate")
          /\ UNCHANGED <<failed>>
     ELSE /\ UNCHANGED <<lockIno, nextIno, inoOwner, inoContent>>
          /\ loc' = [loc EXCEPT ![h].after = "ret", ![h].ok = FALSE]   \* ErrLockFailure -> reload
          /\ failed' = failed \cup {loc[h].txn}
          /\ Goto(h, "r_read")
  /\ UNCHANGED <<list, listExists, refs, tmps, info, nextId, tlock, stack, closedRd, opsLeft, committed, acked, nextTxn, badUnlock, versions>>

A_UpToDate(h) ==
  /\ pc[h] = "a_uptodate"
  /\ IF list = stack[h]
     THEN Goto(h, "a_temp") /\ loc' = Set(h, "names", stack[h])
     ELSE Goto(h, "a_unlock_fail") /\ UNCHANGED loc
  /\ UNCH_FS /\ UNCH_H /\ UNCHANGED <<stack, closedRd, opsLeft>>

A_UnlockFail(h) ==   \* tr.Close(): os.Remove(lock)
  /\ pc[h] = "a_unlock_fail"
  /\ RemoveLockPath(h)
  /\ failed' = failed \cup {loc[h].txn}
  /\ loc' = [loc EXCEPT ![h].after = "ret", ![h].ok = FALSE]
  /\ Goto(h, "r_read")
  /\ UNCHANGED <<list, listExists, refs, tmps, info, nextId, inoOwner, inoContent, nextIno, tlock, stack, closedRd, opsLeft, committed, acked, nextTxn, versions>>

A_Temp(h) ==   \* TempFile + write table + checkAddition (private)
  /\ pc[h] = "a_temp"
  /\ tmps' = tmps \cup {nextId}
  /\ info' = [info EXCEPT ![nextId] = [min |-> NextIdx(h), max |-> NextIdx(h), txns |-> {loc[h].txn}]]
  /\ loc' = Set(h, "id", nextId)
  /\ nextId' = nextId + 1
  /\ Goto(h, "a_rename_tab")
  /\ UNCHANGED <<list, listExists, refs, lockIno, inoOwner, inoContent, nextIno, tlock, stack, closedRd, opsLeft>> /\ UNCH_H

A_RenameTab(h) ==
  /\ pc[h] = "a_rename_tab"
  /\ tmps' = tmps \ {loc[h].id} /\ refs' = refs \cup {loc[h].id}
  /\ loc' = Set(h, "names", Append(loc[h].names, loc[h].id))
  /\ Goto(h, "a_write_lock")
  /\ UNCHANGED <<list, listExists, info, nextId, lockIno, inoOwner, inoContent, nextIno, tlock, stack, closedRd, opsLeft>> /\ UNCH_H

A_WriteLock(h) ==  \* write via fd -> own inode
  /\ pc[h] = "a_write_lock"
  /\ inoContent' = [inoContent EXCEPT ![loc[h].ino] = loc[h].names]
  /\ Goto(h, "a_commit")
  /\ UNCHANGED <<list, listExists, refs, tmps, info, nextId, lockIno, inoOwner, nextIno, tlock, loc, stack, closedRd, opsLeft>> /\ UNCH_H

CommitRename(h, txnset) ==  \* rename(path lock -> tables.list); caller ensures lockIno # 0
  /\ list' = inoContent[lockIno] /\ listExists' = TRUE
  /\ versions' = versions \cup {inoContent[lockIno]}
  /\ badUnlock' = (badUnlock \/ inoOwner[lockIno] # h)
  /\ lockIno' = 0

A_Commit(h) ==
  /\ pc[h] = "a_commit"
  /\ IF lockIno # 0
     THEN /\ CommitRename(h, {})
          /\ committed' = IF loc[h].id \in Range(inoContent[lockIno]) THEN Append(committed, loc[h].txn) ELSE committed
          /\ loc' = [loc EXCEPT ![h].after = "a_done"]
          /\ Goto(h, "r_read")
          /\ UNCHANGED <<refs, failed>>
     ELSE \* rename fails ENOENT: tr.Close() removes new table
          /\ refs' = refs \ {loc[h].id}
          /\ failed' = failed \cup {loc[h].txn}
          /\ loc' = [loc EXCEPT ![h].ok = FALSE]
          /\ Goto(h, "ret")
          /\ UNCHANGED <<list, listExists, versions, badUnlock, lockIno, committed>>
  /\ UNCHANGED <<tmps, info, nextId, inoOwner, inoContent, nextIno, tlock, stack, closedRd, opsLeft, acked, nextTxn>>

A_Done(h) ==
  /\ pc[h] = "a_done"
  /\ IF loc[h].ok THEN acked' = acked \cup {loc[h].txn} /\ UNCHANGED failed
                  ELSE failed' = failed \cup {loc[h].txn} /\ UNCHANGED acked  \* reload error after commit
  /\ Goto(h, "ret")
  /\ UNCH_FS /\ UNCHANGED <<loc, stack, closedRd, opsLeft, committed, nextTxn, badUnlock, versions>>

(* ---------------- reload(reuse) ---------------- *)
R_Read(h) ==
  /\ pc[h] = "r_read"
  /\ loc' = [loc EXCEPT ![h].want = list, ![h].opened = {}, ![h].i = 1]
  /\ Goto(h, "r_open")
  /\ UNCH_FS /\ UNCH_H /\ UNCHANGED <<stack, closedRd, opsLeft>>

R_Open(h) ==
  /\ pc[h] = "r_open"
  /\ LET w == loc[h].want  i == loc[h].i IN
     IF i > Len(w)
     THEN \* success: swap
          /\ stack' = [stack EXCEPT ![h] = w]
          /\ closedRd' = [closedRd EXCEPT ![h] = @ \cap Range(w)]
          /\ loc' = [loc EXCEPT ![h].before = stack[h]]
          /\ Goto(h, "r_gc")
     ELSE IF w[i] \in Range(stack[h])
     THEN /\ loc' = Set(h, "i", i+1) /\ UNCHANGED <<pc, stack, closedRd>>   \* reuse, no fs op (folded)
     ELSE IF w[i] \in refs
     THEN /\ loc' = [loc EXCEPT ![h].i = i+1, ![h].opened = @ \cup {w[i]}] /\ UNCHANGED <<pc, stack, closedRd>>
     ELSE \* ENOENT: deferred close of newTables (incl. reused ones: bug)
          /\ closedRd' = [closedRd EXCEPT ![h] = IF FixReuse THEN @ ELSE @ \cup ({w[j] : j \in 1..(i-1)} \cap Range(stack[h]))]
          /\ UNCHANGED <<loc, stack>>
          /\ Goto(h, "r_reread")
  /\ UNCH_FS /\ UNCH_H /\ UNCHANGED <<opsLeft>>

R_Reread(h) ==
  /\ pc[h] = "r_reread"
  /\ IF list = loc[h].want
     THEN /\ loc' = [loc EXCEPT ![h].ok = FALSE] /\ Goto(h, loc[h].after)
     ELSE /\ loc' = [loc EXCEPT ![h].retry = @ + 1] /\ Goto(h, "r_read")
  /\ UNCH_FS /\ UNCH_H /\ UNCHANGED <<stack, closedRd, opsLeft>>

R_Gc(h) ==  \* remove old tables no longer in stack (one step; each unlink is idempotent)
  /\ pc[h] = "r_gc"
  /\ refs' = refs \ (Range(loc[h].before) \ Range(stack[h]))
  /\ Goto(h, loc[h].after)
  /\ UNCHANGED <<list, listExists, tmps, info, nextId, lockIno, inoOwner, inoContent, nextIno, tlock, loc, stack, closedRd, opsLeft>> /\ UNCH_H

(* ---------------- compactRange(first,last) ---------------- *)
K_Lock(h) ==
  /\ pc[h] = "k_lock"
  /\ IF lockIno = 0
     THEN CreateLock(h) /\ loc' = [loc EXCEPT ![h].ino = nextIno, ![h].holdPath = TRUE] /\ Goto(h, "k_uptodate")
     ELSE UNCHANGED <<lockIno, nextIno, inoOwner, inoContent, loc>> /\ Goto(h, "ret")
  /\ UNCHANGED <<list, listExists, refs, tmps, info, nextId, tlock, stack, closedRd, opsLeft>> /\ UNCH_H

K_UpToDate(h) ==
  /\ pc[h] = "k_uptodate"
  /\ IF list = stack[h] THEN Goto(h, "k_sublock") /\ loc' = Set(h, "i", loc[h].first)
     ELSE Goto(h, "k_cleanup") /\ UNCHANGED loc
  /\ UNCH_FS /\ UNCH_H /\ UNCHANGED <<stack, closedRd, opsLeft>>

K_SubLock(h) ==
  /\ pc[h] = "k_sublock"
  /\ LET i == loc[h].i  id == stack[h][i] IN
     IF i > loc[h].last THEN Goto(h, "k_unlock") /\ UNCHANGED <<tlock, loc>>
     ELSE IF tlock[id] = NoH
     THEN tlock' = [tlock EXCEPT ![id] = h] /\ loc' = [loc EXCEPT ![h].i = i+1, ![h].subs = @ \cup {id}] /\ UNCHANGED pc
     ELSE UNCHANGED <<tlock, loc>> /\ Goto(h, "k_cleanup")
  /\ UNCHANGED <<list, listExists, refs, tmps, info, nextId, lockIno, inoOwner, inoContent, nextIno, stack, closedRd, opsLeft>> /\ UNCH_H

K_Unlock(h) ==
  /\ pc[h] = "k_unlock"
  /\ RemoveLockPath(h)
  /\ loc' = Set(h, "holdPath", FALSE)
  /\ Goto(h, "k_temp")
  /\ UNCHANGED <<list, listExists, refs, tmps, info, nextId, inoOwner, inoContent, nextIno, tlock, stack, closedRd, opsLeft, committed, acked, failed, nextTxn, versions>>

K_Temp(h) ==
  /\ pc[h] = "k_temp"
  /\ LET f == loc[h].first  l == loc[h].last IN
     /\ tmps' = tmps \cup {nextId}
     /\ info' = [info EXCEPT ![nextId] = [min |-> info[stack[h][f]].min, max |-> info[stack[h][l]].max,
                                          txns |-> UNION {info[stack[h][j]].txns : j \in f..l}]]
  /\ loc' = Set(h, "id", nextId) /\ nextId' = nextId + 1
  /\ Goto(h, "k_relock")
  /\ UNCHANGED <<list, listExists, refs, lockIno, inoOwner, inoContent, nextIno, tlock, stack, closedRd, opsLeft>> /\ UNCH_H

K_Relock(h) ==
  /\ pc[h] = "k_relock"
  /\ IF lockIno = 0
     THEN CreateLock(h) /\ loc' = [loc EXCEPT ![h].ino = nextIno, ![h].holdPath = TRUE] /\ Goto(h, "k_rebase") /\ UNCHANGED tmps
     ELSE /\ UNCHANGED <<lockIno, nextIno, inoOwner, inoContent>>
          /\ IF FixRelock THEN loc' = Set(h, "holdPath", FALSE) /\ tmps' = tmps \ {loc[h].id}
                          ELSE loc' = Set(h, "holdPath", TRUE) /\ UNCHANGED tmps   \* bug: lockFileName set before the open; temp leaked
          /\ Goto(h, "k_cleanup")
  /\ UNCHANGED <<list, listExists, refs, info, nextId, tlock, stack, closedRd, opsLeft>> /\ UNCH_H

Splice(cur, olds, new) ==  \* replace contiguous occurrence of olds in cur by <<new>>; <<>> if not found
  LET n == Len(olds)
      pos == {p \in 1..(Len(cur) - n + 1) : SubSeq(cur, p, p + n - 1) = olds}
  IN IF pos = {} THEN <<>> ELSE LET p == CHOOSE q \in pos : TRUE IN SubSeq(cur, 1, p-1) \o <<new>> \o SubSeq(cur, p+n, Len(cur))

K_Rebase(h) ==   \* fixed code re-reads the list here; pinned code uses its stale stack (no fs op)
  /\ pc[h] = "k_rebase"
  /\ LET f == loc[h].first  l == loc[h].last
         olds == SubSeq(stack[h], f, l)
         names == IF FixRelock THEN Splice(list, olds, loc[h].id)
                  ELSE SubSeq(stack[h], 1, f-1) \o <<loc[h].id>> \o SubSeq(stack[h], l+1, Len(stack[h]))
     IN IF names = <<>> THEN Goto(h, "k_cleanup") /\ UNCHANGED loc   \* cannot rebase: give up (temp removed in cleanup)
        ELSE loc' = Set(h, "names", names) /\ Goto(h, "k_rename_tab")
  /\ UNCH_FS /\ UNCH_H /\ UNCHANGED <<stack, closedRd, opsLeft>>

K_RenameTab(h) ==
  /\ pc[h] = "k_rename_tab"
  /\ tmps' = tmps \ {loc[h].id} /\ refs' = refs \cup {loc[h].id}
  /\ Goto(h, "k_write_lock")
  /\ UNCHANGED <<list, listExists, info, nextId, lockIno, inoOwner, inoContent, nextIno, tlock, loc, stack, closedRd, opsLeft>> /\ UNCH_H

K_WriteLock(h) ==
  /\ pc[h] = "k_write_lock"
  /\ inoContent' = [inoContent EXCEPT ![loc[h].ino] = loc[h].names]
  /\ Goto(h, "k_commit")
  /\ UNCHANGED <<list, listExists, refs, tmps, info, nextId, lockIno, inoOwner, nextIno, tlock, loc, stack, closedRd, opsLeft>> /\ UNCH_H

K_Commit(h) ==
  /\ pc[h] = "k_commit"
  /\ IF lockIno # 0
     THEN CommitRename(h, {}) /\ loc' = [loc EXCEPT ![h].holdPath = FALSE, ![h].after = "k_cleanup"] /\ Goto(h, "k_delete") /\ UNCHANGED refs
     ELSE refs' = refs \ {loc[h].id} /\ UNCHANGED <<list, listExists, versions, badUnlock, lockIno, loc>> /\ Goto(h, "k_cleanup")
  /\ UNCHANGED <<tmps, info, nextId, inoOwner, inoContent, nextIno, tlock, stack, closedRd, opsLeft, committed, acked, failed, nextTxn>>

K_Delete(h) ==
  /\ pc[h] = "k_delete"
  /\ refs' = refs \ loc[h].subs
  /\ Goto(h, "r_read")
  /\ UNCHANGED <<list, listExists, tmps, info, nextId, lockIno, inoOwner, inoContent, nextIno, tlock, loc, stack, closedRd, opsLeft>> /\ UNCH_H

K_Cleanup(h) ==  \* deferred: remove sublocks; remove lock path if lockFileName # ""
  /\ pc[h] = "k_cleanup"
  /\ tlock' = [id \in Ids |-> IF id \in loc[h].subs THEN NoH ELSE tlock[id]]
  /\ IF loc[h].holdPath THEN RemoveLockPath(h) ELSE UNCHANGED <<lockIno, badUnlock>>
  /\ IF FixRelock THEN tmps' = tmps \ {loc[h].id} ELSE UNCHANGED tmps
  /\ Goto(h, "ret")
  /\ UNCHANGED <<list, listExists, refs, info, nextId, inoOwner, inoContent, nextIno, loc, stack, closedRd, opsLeft, committed, acked, failed, nextTxn, versions>>

Ret(h) ==
  /\ pc[h] = "ret"
  /\ loc' = [loc EXCEPT ![h] = L0]
  /\ Goto(h, "idle")
  /\ UNCH_FS /\ UNCH_H /\ UNCHANGED <<stack, closedRd, opsLeft>>

Crash(h) ==
  /\ pc[h] \notin {"idle", "crashed"}
  /\ Goto(h, "crashed")
  /\ UNCH_FS /\ UNCH_H /\ UNCHANGED <<loc, stack, closedRd, opsLeft>>

Step(h) ==
  \/ StartAdd(h) \/ StartCompact(h) \/ StartReload(h)
  \/ A_Lock(h) \/ A_UpToDate(h) \/ A_UnlockFail(h) \/ A_Temp(h) \/ A_RenameTab(h) \/ A_WriteLock(h) \/ A_Commit(h) \/ A_Done(h)
  \/ R_Read(h) \/ R_Open(h) \/ R_Reread(h) \/ R_Gc(h)
  \/ K_Lock(h) \/ K_UpToDate(h) \/ K_SubLock(h) \/ K_Unlock(h) \/ K_Temp(h) \/ K_Relock(h) \/ K_Rebase(h)
  \/ K_RenameTab(h) \/ K_WriteLock(h) \/ K_Commit(h) \/ K_Delete(h) \/ K_Cleanup(h)
  \/ Ret(h)

Next == \E h \in Handles : Step(h) \/ (CrashOn /\ Crash(h))
Spec == Init /\ [][Next]_vars

(* ---------------- properties ---------------- *)
TxnsOf(s) == UNION {info[s[i]].txns : i \in DOMAIN s}
C04_NoLostNoPhantom == TxnsOf(list) = Range(committed)
C04_AckedCommitted == acked \subseteq Range(committed) /\ failed \cap Range(committed) = {}
C05_ListIntegrity == /\ Range(list) \subseteq refs
                     /\ \A i \in 1..(Len(list)-1) : info[list[i]].max < info[list[i+1]].min
C08_Locks == ~badUnlock
C10_Snapshot == \A h \in Handles : pc[h] = "idle" => (stack[h] \in versions /\ closedRd[h] = {})
C16_Residue == (\A h \in Handles : pc[h] = "idle") =>
                 (lockIno = 0 /\ tmps = {} /\ refs = Range(list) /\ \A i \in Ids : tlock[i] = NoH)
=============================================================================
