// Package os (import path verifwork/vos) is a façade over the real package os.
// The reftable sources assembled into the scratch module import it instead of
// "os"; every path-level call performs the REAL system call on the real
// directory, bracketed by sched.Gate (before) and sched.Done (after).
package os

import (
	"errors"
	"io"
	"io/fs"
	realos "os"
	"strings"
	"sync"
	"sync/atomic"
	"syscall"
	"time"

	"verifwork/sched"
)

const (
	O_RDONLY = realos.O_RDONLY
	O_WRONLY = realos.O_WRONLY
	O_RDWR   = realos.O_RDWR
	O_APPEND = realos.O_APPEND
	O_CREATE = realos.O_CREATE
	O_EXCL   = realos.O_EXCL
	O_SYNC   = realos.O_SYNC
	O_TRUNC  = realos.O_TRUNC

	ModePerm = realos.ModePerm
	ModeDir  = realos.ModeDir

	PathSeparator = realos.PathSeparator
)

var (
	ErrInvalid          = realos.ErrInvalid
	ErrPermission       = realos.ErrPermission
	ErrExist            = realos.ErrExist
	ErrNotExist         = realos.ErrNotExist
	ErrClosed           = realos.ErrClosed
	ErrDeadlineExceeded = realos.ErrDeadlineExceeded

	Stdin  = realos.Stdin
	Stdout = realos.Stdout
	Stderr = realos.Stderr
	Args   = realos.Args
)

type (
	FileInfo   = realos.FileInfo
	FileMode   = realos.FileMode
	DirEntry   = realos.DirEntry
	PathError  = realos.PathError
	LinkError  = realos.LinkError
	SyscallErr = realos.SyscallError
	Signal     = realos.Signal
)

func IsExist(err error) bool       { return realos.IsExist(err) }
func IsNotExist(err error) bool    { return realos.IsNotExist(err) }
func IsPermission(err error) bool  { return realos.IsPermission(err) }
func IsTimeout(err error) bool     { return realos.IsTimeout(err) }
func Getpid() int                  { return realos.Getpid() }
func Getenv(k string) string       { return realos.Getenv(k) }
func TempDir() string              { return realos.TempDir() }
func Exit(c int)                   { realos.Exit(c) }
func Hostname() (string, error)    { return realos.Hostname() }
func Getwd() (string, error)       { return realos.Getwd() }
func IsPathSeparator(c uint8) bool { return realos.IsPathSeparator(c) }
func SameFile(a, b FileInfo) bool  { return realos.SameFile(unwrapInfo(a), unwrapInfo(b)) }

// Res classifies an error for the trace.
func Res(err error) string {
	switch {
	case err == nil:
		return "ok"
	case errors.Is(err, fs.ErrExist):
		return "EEXIST"
	case errors.Is(err, fs.ErrNotExist):
		return "ENOENT"
	case errors.Is(err, syscall.ENOTEMPTY):
		return "ENOTEMPTY"
	case errors.Is(err, fs.ErrClosed):
		return "ECLOSED"
	case errors.Is(err, syscall.EISDIR):
		return "EISDIR"
	}
	return "other:" + err.Error()
}

// injected is the error a call returns when the scheduler asked for a fault: the call is NOT performed.
func injected(op, path string) error {
	return &realos.PathError{Op: op, Path: path, Err: syscall.EIO}
}

// File wraps *os.File. Writes to anything that is not a *.reftmp temporary are
// gated (they are visible to other processes, e.g. the staging of the next
// tables.list inside tables.list.lock); reads through descriptors are not.
type File struct {
	f    *realos.File
	path string
	nw   int
	id   int
	buf  []byte // everything written so far (non-private files only)

	closed bool
}

var (
	fdMu   sync.Mutex
	fdNext int
)

func wrap(f *realos.File, path string) *File {
	if f == nil {
		return nil
	}
	fdMu.Lock()
	fdNext++
	id := fdNext
	fdMu.Unlock()
	return &File{f: f, path: path, id: id}
}

// names splits staged list content into its non-empty lines.
func names(b []byte) []string {
	res := []string{}
	for _, l := range strings.Split(string(b), "\n") {
		if l != "" {
			res = append(res, sched.AliasNameCur(l))
		}
	}
	return res
}

func (f *File) private() bool { return strings.HasSuffix(f.path, ".reftmp") }

func (f *File) Name() string { return f.f.Name() }
func (f *File) Fd() uintptr  { return f.f.Fd() }

func (f *File) Write(b []byte) (int, error) {
	if f.private() {
		f.nw += len(b)
		return f.f.Write(b)
	}
	if sched.Gate("write", f.path, "") {
		sched.Done("write", f.path, "", "EIO", sched.Event{"fd": f.id, "names": names(f.buf), "n": 0, "injected": true})
		return 0, injected("write", f.path)
	}
	n, err := f.f.Write(b)
	f.nw += n
	f.buf = append(f.buf, b[:n]...)
	sched.Done("write", f.path, "", Res(err), sched.Event{"fd": f.id, "names": names(f.buf), "n": n})
	return n, err
}

func (f *File) WriteString(s string) (int, error) { return f.Write([]byte(s)) }

func (f *File) WriteAt(b []byte, off int64) (int, error) {
	if f.private() {
		return f.f.WriteAt(b, off)
	}
	sched.Gate("write", f.path, "")
	n, err := f.f.WriteAt(b, off)
	f.nw += n
	for int64(len(f.buf)) < off+int64(n) {
		f.buf = append(f.buf, 0)
	}
	copy(f.buf[off:], b[:n])
	sched.Done("write", f.path, "", Res(err), sched.Event{"fd": f.id, "names": names(f.buf), "n": n, "off": off})
	return n, err
}

func (f *File) Read(b []byte) (int, error)              { return f.f.Read(b) }
func (f *File) ReadAt(b []byte, off int64) (int, error) {
	if atomic.LoadInt64(&readFault) > 0 && atomic.AddInt64(&readFault, -1) == 0 {
		return 0, injected("read", f.path)
	}
	return f.f.ReadAt(b, off)
}

// readFault > 0: the readFault-th positional read from now (of any file) fails with an injected I/O error.
var readFault int64

// SetReadFault arms (k > 0) or disarms (0) the positional-read fault.
func SetReadFault(k int64) { atomic.StoreInt64(&readFault, k) }

// ReadFaultPending reports whether an armed fault has not been hit yet.
func ReadFaultPending() bool { return atomic.LoadInt64(&readFault) > 0 }
func (f *File) Seek(o int64, w int) (int64, error)      { return f.f.Seek(o, w) }
func (f *File) Stat() (FileInfo, error)                 { fi, err := f.f.Stat(); return coarse(fi), err }
func (f *File) Sync() error                             { return f.f.Sync() }
func (f *File) Chmod(m FileMode) error                  { return f.f.Chmod(m) }
func (f *File) SetDeadline(t time.Time) error           { return f.f.SetDeadline(t) }
func (f *File) Readdir(n int) ([]FileInfo, error)       { return f.f.Readdir(n) }
func (f *File) ReadDir(n int) ([]DirEntry, error)       { return f.f.ReadDir(n) }
func (f *File) Readdirnames(n int) ([]string, error)    { return f.f.Readdirnames(n) }

func (f *File) Truncate(size int64) error {
	sched.Gate("ftruncate", f.path, "")
	err := f.f.Truncate(size)
	sched.Done("ftruncate", f.path, "", Res(err), sched.Event{"size": size})
	return err
}

func (f *File) Close() error {
	if f == nil {
		return realos.ErrInvalid
	}
	if f.closed {
		return f.f.Close()
	}
	f.closed = true
	// a written file is read back through the descriptor before it is closed, so
	// that the recorder can tell whether it now is a complete table
	var content []byte
	if f.nw > 0 {
		if f.private() {
			if fi, e := f.f.Stat(); e == nil {
				content = make([]byte, fi.Size())
				if _, e := f.f.ReadAt(content, 0); e != nil && e != io.EOF {
					content = nil
				}
			}
		} else {
			content = f.buf
		}
	}
	err := f.f.Close()
	if f.nw == 0 {
		return err // closing a descriptor that was only read changes nothing anybody can see
	}
	extra := sched.Event{"fd": f.id, "nw": f.nw}
	for k, v := range sched.SealInfo(content) {
		extra[k] = v
	}
	sched.Done("close", f.path, "", Res(err), extra)
	return err
}

// WrapTemp is used by vioutil.TempFile.
func WrapTemp(f *realos.File) *File { return wrap(f, f.Name()) }

func OpenFile(name string, flag int, perm FileMode) (*File, error) {
	op := "openfile"
	switch {
	case flag&O_CREATE != 0 && flag&O_EXCL != 0:
		op = "createexcl"
	case flag&O_CREATE != 0 && flag&O_TRUNC != 0:
		op = "createtrunc"
	case flag&O_CREATE != 0:
		op = "create"
	case flag&(O_WRONLY|O_RDWR) != 0 && flag&O_TRUNC != 0:
		op = "opentrunc"
	case flag&(O_WRONLY|O_RDWR) != 0:
		op = "openwrite"
	default:
		op = "open"
	}
	if sched.Gate(op, name, "") {
		sched.Done(op, name, "", "EIO", sched.Event{"fd": 0, "injected": true})
		return nil, injected("open", name)
	}
	f, err := realos.OpenFile(name, flag, perm)
	w := wrap(f, name)
	if err != nil {
		w = nil
	}
	fd := 0
	if w != nil {
		fd = w.id
	}
	sched.Done(op, name, "", Res(err), sched.Event{"fd": fd})
	if err != nil {
		return nil, err
	}
	return w, nil
}

func Open(name string) (*File, error) { return OpenFile(name, O_RDONLY, 0) }

func Create(name string) (*File, error) {
	return OpenFile(name, O_RDWR|O_CREATE|O_TRUNC, 0666)
}

func CreateTemp(dir, pattern string) (*File, error) {
	if sched.Gate("tempfile", "", "") {
		sched.Done("tempfile", dir+"/"+pattern, "", "EIO", sched.Event{"fd": 0, "injected": true})
		return nil, injected("open", dir+"/"+pattern)
	}
	f, err := realos.CreateTemp(dir, pattern)
	p := dir + "/" + pattern
	if err == nil {
		p = f.Name()
	}
	if err != nil {
		sched.Done("tempfile", p, "", Res(err), sched.Event{"fd": 0})
		return nil, err
	}
	w := wrap(f, f.Name())
	sched.Done("tempfile", p, "", Res(err), sched.Event{"fd": w.id})
	return w, nil
}

func Rename(oldpath, newpath string) error {
	if sched.Gate("rename", oldpath, newpath) {
		sched.Done("rename", oldpath, newpath, "EIO", sched.Event{"injected": true})
		return &realos.LinkError{Op: "rename", Old: oldpath, New: newpath, Err: syscall.EIO}
	}
	err := realos.Rename(oldpath, newpath)
	sched.Done("rename", oldpath, newpath, Res(err), nil)
	return err
}

func Remove(name string) error {
	sched.Gate("remove", name, "")
	err := realos.Remove(name)
	sched.Done("remove", name, "", Res(err), nil)
	return err
}

func RemoveAll(name string) error {
	sched.Gate("removeall", name, "")
	err := realos.RemoveAll(name)
	sched.Done("removeall", name, "", Res(err), nil)
	return err
}

func Link(oldname, newname string) error {
	sched.Gate("link", oldname, newname)
	err := realos.Link(oldname, newname)
	sched.Done("link", oldname, newname, Res(err), nil)
	return err
}

func Symlink(oldname, newname string) error {
	sched.Gate("symlink", newname, "")
	err := realos.Symlink(oldname, newname)
	sched.Done("symlink", newname, "", Res(err), nil)
	return err
}

func Truncate(name string, size int64) error {
	sched.Gate("truncate", name, "")
	err := realos.Truncate(name, size)
	sched.Done("truncate", name, "", Res(err), sched.Event{"size": size})
	return err
}

func ReadFile(name string) ([]byte, error) {
	if sched.Gate("readfile", name, "") {
		sched.Done("readfile", name, "", "EIO", sched.Event{"names": []string{}, "injected": true})
		return nil, injected("read", name)
	}
	b, err := realos.ReadFile(name)
	sched.Done("readfile", name, "", Res(err), sched.Event{"names": names(b)})
	return b, err
}

// WriteFile is performed as the three calls it really is (open with
// truncation, write, close), so that the scheduler can stop between them.
func WriteFile(name string, data []byte, perm FileMode) error {
	f, err := OpenFile(name, O_WRONLY|O_CREATE|O_TRUNC, perm)
	if err != nil {
		return err
	}
	_, err = f.Write(data)
	if err1 := f.Close(); err1 != nil && err == nil {
		err = err1
	}
	return err
}

func ReadDir(name string) ([]DirEntry, error) {
	if sched.Gate("readdir", name, "") {
		sched.Done("readdir", name, "", "EIO", sched.Event{"n": 0, "injected": true})
		return nil, injected("readdir", name)
	}
	es, err := realos.ReadDir(name)
	sched.Done("readdir", name, "", Res(err), sched.Event{"n": len(es)})
	return es, err
}

// The environment has coarse file timestamps (2 s, as on FAT; 1 s on ext3 / HFS+): a whole run happens within one
// tick, so code that takes an unchanged (size, mtime) for an unchanged file - the "racy git" mistake - is exposed.
// Code that does not look at timestamps cannot tell the difference.
type coarseInfo struct{ realos.FileInfo }

func (c coarseInfo) ModTime() time.Time { return c.FileInfo.ModTime().Truncate(2 * time.Second) }

func coarse(fi FileInfo) FileInfo {
	if fi == nil {
		return nil
	}
	return coarseInfo{fi}
}

func unwrapInfo(fi FileInfo) FileInfo {
	if c, ok := fi.(coarseInfo); ok {
		return c.FileInfo
	}
	return fi
}

func Stat(name string) (FileInfo, error) {
	sched.Gate("stat", name, "")
	fi, err := realos.Stat(name)
	sched.Done("stat", name, "", Res(err), nil)
	return coarse(fi), err
}

func Lstat(name string) (FileInfo, error) {
	sched.Gate("stat", name, "")
	fi, err := realos.Lstat(name)
	sched.Done("stat", name, "", Res(err), nil)
	return coarse(fi), err
}

func Mkdir(name string, perm FileMode) error    { return realos.Mkdir(name, perm) }
func MkdirAll(name string, perm FileMode) error { return realos.MkdirAll(name, perm) }
func MkdirTemp(dir, pat string) (string, error) { return realos.MkdirTemp(dir, pat) }
func Chmod(name string, mode FileMode) error    { return realos.Chmod(name, mode) }
func Chtimes(n string, a, m time.Time) error    { return realos.Chtimes(n, a, m) }
func NewSyscallError(s string, e error) error   { return realos.NewSyscallError(s, e) }
func LookupEnv(k string) (string, bool)         { return realos.LookupEnv(k) }
func Setenv(k, v string) error                  { return realos.Setenv(k, v) }
func Environ() []string                         { return realos.Environ() }
func Executable() (string, error)               { return realos.Executable() }
func UserHomeDir() (string, error)              { return realos.UserHomeDir() }
func Getuid() int                               { return realos.Getuid() }
func Readlink(name string) (string, error)      { return realos.Readlink(name) }
func DirFS(dir string) fs.FS                    { return realos.DirFS(dir) }
func NewFile(fd uintptr, name string) *File     { return wrap(realos.NewFile(fd, name), name) }
func Pipe() (*realos.File, *realos.File, error) { return realos.Pipe() }
