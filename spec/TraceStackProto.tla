-------------------------- MODULE TraceStackProto --------------------------
(***************************************************************************)
(* Conformance of the code to the IMPLEMENTATION-LEVEL specification:      *)
(* every execution recorded from the real stack code (schedules chosen on  *)
(* the code side: random, PCT, preemption and crash enumeration) must be a *)
(* behaviour of StackProto.  Every recorded event - call start, every      *)
(* single filesystem call with its path, path class and result, every      *)
(* return with its result, every kill - must be explained by the StackProto*)
(* action of that handle whose label (history variable act) carries the    *)
(* same operation, path class, path and result.  What the model leaves     *)
(* open (which range AutoCompact picks, whether the name check refuses a   *)
(* table, in which order stale tables are removed) is resolved by the      *)
(* trace.  A trace that cannot be explained deadlocks: DRIFT - the code    *)
(* does something stack.go-as-specified does not do (never a VIOLATION:    *)
(* verdicts come from TraceStackFS).                                       *)
(*                                                                         *)
(* Table names: the recorder numbers tables by first appearance; the       *)
(* pre-processing (lib/proto.py: conform_events) renames every table to    *)
(* t<k> where tmp<k> is the temporary it was renamed from, which is the    *)
(* model's naming (TN(id), TM(id) with one counter).                       *)
(***************************************************************************)
EXTENDS StackProto, Json

CONSTANT TraceFile
Traces == JsonDeserialize(TraceFile)

VARIABLES tr, l
tvars == <<tr, l>>
allvars == <<vars, tr, l>>

Ev == Traces[tr].ev
E  == Ev[l]

TInit ==
  /\ tr \in 1..Len(Traces) /\ l = 1
  /\ ino = <<>> /\ dir = <<>> /\ lver = {<<>>} /\ committed = <<>> /\ cmarks = {}
  /\ lastRead = [h \in Handles |-> <<>>] /\ tabHist = <<>> /\ viol = {}
  /\ pending = [h \in Handles |-> NoCall] /\ acked = {} /\ failed = {} /\ crashed = {}
  /\ pc = [h \in Handles |-> "closed"] /\ loc = [h \in Handles |-> L0]
  /\ stack = [h \in Handles |-> <<>>] /\ closedRd = [h \in Handles |-> {}]
  /\ opsLeft = [h \in Handles |-> 100000] /\ nextId = 1 /\ nextTxn = 1
  /\ act = [n |-> 0, h |-> 0, a |-> "Init", op |-> "", pk |-> "", res |-> "", arg |-> <<>>, path |-> ""]
  /\ TLCSet(tr, 1)

SilentPending == {h \in Handles : pc[h] \in {"a_done", "k_reloaded"}}

(* the start of the API call the trace names, with the parameters the trace gives *)
TStart(h) ==
  LET op == E.op IN
  CASE op \in {"add", "empty"} -> StartAddT(h, 1, op, E.txn, E.auto, "any") /\ UNCHANGED nextTxn
    [] op \in {"addition", "abort"} -> StartAddT(h, E.parts, op, E.txn, FALSE, "any") /\ UNCHANGED nextTxn
    [] op = "compactall" -> IF Len(stack[h]) >= 2 THEN StartCompactAll(h) ELSE StartNoop(h, "compactall")
    [] op = "compactrange" -> IF 1 <= E.first /\ E.first < E.last /\ E.last <= Len(stack[h])
                              THEN StartCompactT(h, E.first, E.last) ELSE StartNoop(h, "compactrange")
    [] op = "autocompact" -> StartAutoCompact(h)
    [] op = "reload" -> StartOther(h, "reload", "r_read", ToReload([L0 EXCEPT !.op = "reload"], "ret", TRUE))
    [] op = "reopen" -> StartOther(h, "reopen", "c_read", [L0 EXCEPT !.op = "reopen"])
    [] op = "close"  -> StartOther(h, "close", "c_read", [L0 EXCEPT !.op = "close"])
    [] op = "clean"  -> StartOther(h, "clean", "l_lock", [L0 EXCEPT !.op = "clean"])
    [] op = "read"   -> StartNoop(h, "read")
    [] op = "open"   -> StartOpenFrom(h, {"closed", "idle"})
    [] OTHER -> FALSE

Matches == act'.h = E.h /\ act'.op = E.op /\ act'.pk = E.pk /\ act'.res = E.res /\ act'.path = E.path

(* the driver may kill a process between two of its calls as well *)
TCrash(h) ==
  IF pc[h] \in {"idle", "closed"}
  THEN /\ FsCrash(h) /\ FsNop
       /\ pc' = [pc EXCEPT ![h] = "crashed"] /\ UNCHANGED loc
       /\ KeepCtr /\ KeepMem
       /\ ActP(h, "Crash", "crash", "", "", "")
  ELSE Crash(h)

TEvent ==
  /\ SilentPending = {} /\ l <= Len(Ev)
  /\ l' = l + 1 /\ UNCHANGED tr
  /\ CASE E.k = "call"  -> TStart(E.h)
       [] E.k = "fs"    -> FsSteps(E.h) /\ Matches
       [] E.k = "ret"   -> Ret(E.h) /\ act'.res = E.res
       [] E.k = "crash" -> TCrash(E.h)
       [] OTHER -> FALSE

TSilent ==
  /\ SilentPending # {}
  /\ LET h == CHOOSE h \in SilentPending : TRUE IN Silent(h)
  /\ UNCHANGED tvars

TDone == l > Len(Ev) /\ SilentPending = {} /\ UNCHANGED allvars

TNext == TEvent \/ TSilent \/ TDone
TSpec == TInit /\ [][TNext]_allvars

(* Acceptance.  Where the model leaves a choice open the search branches and the wrong branches die, so a dead end is   *)
(* not a rejection: a trace is accepted iff SOME branch consumes all of it.  Register tr holds the highest line reached   *)
(* for trace tr (updated while every state is checked; needs -workers 1); the postcondition prints them.                  *)
HWInv == TLCSet(tr, IF TLCGet(tr) < l THEN l ELSE TLCGet(tr))
Report == \A t \in 1..Len(Traces) : PrintT(<<"HW", t, TLCGet(t), Len(Traces[t].ev)>>)

(* the implementation-level invariants, evaluated on the state the model reconstructs for the real execution *)
TInv == C08_LockMutex
=============================================================================
