// drvproto runs multi-handle executions of the real stack code under the
// scheduler and writes one recorded trace per run.
//
//	drvproto <jobs.json> <out.json>
//
// jobs.json: {"runs":[Run...]}; out.json: [ {"id","nh","events":[...],"drift":[...],"steps":N,"tail":[...]} ... ]
package main

import (
	"encoding/json"
	"fmt"
	"math/rand"
	realos "os"
	"sort"
	"strings"

	"verifwork/fmtdec"
	"verifwork/reftable"
	"verifwork/sched"
)

type Call struct {
	Op     string        `json:"op"`
	Txn    int           `json:"txn"`
	Parts  [][][2]string `json:"parts"` // per table: list of [name, value]; "" = deletion
	First  int           `json:"first"`
	Last   int           `json:"last"`
	Expiry *struct {
		Time, Min, Max uint64
	} `json:"expiry"`
}

type Expect struct {
	H   int    `json:"h"`
	Op  string `json:"op"`
	Pk  string `json:"pk"`
	Res string `json:"res"`
}

type Crash struct {
	H      int `json:"h"`
	Before int `json:"before"` // crash before the handle's k-th gate (1-based, counting the "call" gates)
}

type Run struct {
	ID      string            `json:"id"`
	Hash    string            `json:"hash"`
	NH      int               `json:"nh"`
	Init    []Call            `json:"init"`
	Progs   map[string][]Call `json:"progs"`
	Auto    map[string]bool   `json:"auto"`
	Sched   []int             `json:"sched"`
	Expect  []Expect          `json:"expect"`
	Crash   []Crash           `json:"crash"`
	Fault   []Crash           `json:"fault"` // the handle's k-th gate fails with an injected I/O error (if it is a call that can fail that way)
	Tail    string            `json:"tail"` // "rr" (round robin), "seq", "random", "pct"
	Seed    int64             `json:"seed"`
	PCTd    int               `json:"pctd"`
	Skip    bool              `json:"skipnamecheck"`
	NoMarks bool              `json:"nomarks"` // transactions without marker refs (tables can become empty under compaction; no transaction accounting)
	Pre     bool              `json:"preopen"` // every handle opens the stack during set-up (as in StackProto\'s Init)
	Alien   map[string]bool   `json:"alien"`   // handles configured with the OTHER hash function (a misconfigured process)
}

type Out struct {
	ID     string        `json:"id"`
	NH     int           `json:"nh"`
	Events []sched.Event `json:"events"`
	Drift  []string      `json:"drift"`
	Steps  int           `json:"steps"`
	Sched  []int         `json:"sched"` // the handle choices actually made (replayable)
	Err    string        `json:"err,omitempty"`
}

const markPrefix = "refs/m/"

// no program of the generated runs needs more than a few hundred filesystem calls
const stepCap = 1500

func hashSize(h string) int {
	if h == "s256" {
		return 32
	}
	return 20
}

func valBytes(v string, n int) []byte {
	b := make([]byte, n)
	copy(b, v)
	return b
}

func valString(b []byte) string { return strings.TrimRight(string(b), "\x00") }

// decodeTable is the recorder's projection of a just-closed file: nil unless
// the bytes are a complete, well-formed table (judged by the independent decoder).
func decodeTable(content []byte) sched.Event {
	f, err := fmtdec.Parse(content)
	if err != nil || len(f.Problems) > 0 {
		return nil
	}
	refs, _ := f.Records()
	marks := []int{}
	pairs := [][2]string{}
	for _, r := range refs {
		v := ""
		switch r.Kind {
		case 1, 2:
			v = valString(r.Value)
		case 3:
			v = "@" + r.Target
		}
		if strings.HasPrefix(r.Name, markPrefix) {
			var m int
			fmt.Sscanf(r.Name[len(markPrefix):], "%d", &m)
			if v != "" {
				marks = append(marks, m)
			}
		}
		pairs = append(pairs, [2]string{r.Name, v})
	}
	if len(refs) == 0 {
		return nil
	}
	return sched.Event{"min": f.Min, "max": f.Max, "hash": f.HashID, "marks": marks, "refs": pairs}
}

type handleState struct {
	st   *reftable.Stack
	auto bool
}

type runner struct {
	run    Run
	dir    string
	cfg    reftable.Config
	c      *sched.Controller
	hs     map[int]*handleState
	stHash map[*reftable.Stack]int
}

func classify(err error) string {
	switch {
	case err == nil:
		return "ok"
	case err == reftable.ErrLockFailure:
		return "lock"
	}
	s := err.Error()
	if strings.Contains(s, "existing ref") || strings.Contains(s, "invalid name") {
		return "rejected"
	}
	return "other"
}

func (r *runner) marksOf(c Call) []int {
	m := []int{}
	if r.run.NoMarks {
		return m
	}
	for i, p := range c.Parts {
		if len(p) > 0 {
			m = append(m, c.Txn*10+i)
		}
	}
	return m
}

func (r *runner) recsOf(c Call) [][2]string {
	out := [][2]string{}
	for i, p := range c.Parts {
		if len(p) == 0 {
			continue
		}
		out = append(out, p...)
		if !r.run.NoMarks {
			out = append(out, [2]string{fmt.Sprintf("%s%d", markPrefix, c.Txn*10+i), "m"})
		}
	}
	return out
}

// cfgOf: the configuration of handle h (an "alien" handle uses the other hash function)
func (r *runner) cfgOf(h int) reftable.Config {
	c := r.cfg
	if r.run.Alien[fmt.Sprint(h)] {
		if c.HashID == reftable.SHA1ID {
			c.HashID = reftable.SHA256ID
		} else {
			c.HashID = reftable.SHA1ID
		}
	}
	return c
}

func (r *runner) tableWriter(st *reftable.Stack, idx uint64, part [][2]string, mark int) func(w *reftable.Writer) error {
	hs := r.cfg.HashID.Size()
	if n, ok := r.stHash[st]; ok && st != nil {
		hs = n
	}
	return func(w *reftable.Writer) error {
		recs := append([][2]string{}, part...)
		if len(recs) > 0 && !r.run.NoMarks {
			recs = append(recs, [2]string{fmt.Sprintf("%s%d", markPrefix, mark), "m"})
		}
		sort.Slice(recs, func(i, j int) bool { return recs[i][0] < recs[j][0] })
		w.SetLimits(idx, idx)
		for _, p := range recs {
			rec := reftable.RefRecord{RefName: p[0], UpdateIndex: idx}
			switch {
			case p[1] == "":
			case strings.HasPrefix(p[1], "@"):
				rec.Target = p[1][1:]
			default:
				rec.Value = valBytes(p[1], hs)
			}
			if err := w.AddRef(&rec); err != nil {
				return err
			}
		}
		return nil
	}
}

// tableWriterRange writes a table whose header claims the update-index range [lo, hi] (records at lo).
func (r *runner) tableWriterRange(lo, hi uint64, part [][2]string, mark int) func(w *reftable.Writer) error {
	inner := r.tableWriter(nil, lo, part, mark)
	return func(w *reftable.Writer) error {
		if err := inner(w); err != nil {
			return err
		}
		w.SetLimits(lo, hi)
		return nil
	}
}

// doCall performs one API call on handle h and logs call / ret / view events.
func (r *runner) doCall(h int, c Call) {
	hst := r.hs[h]
	sched.LogCur(sched.Event{"ev": "call", "h": h, "op": c.Op, "txn": c.Txn, "marks": r.marksOf(c), "recs": r.recsOf(c),
		"first": c.First, "last": c.Last, "nparts": len(c.Parts), "auto": hst.auto, "expiry": c.Expiry != nil})
	res, msg := "ok", ""
	func() {
		defer func() {
			if p := recover(); p != nil {
				res, msg = "panic", fmt.Sprint(p)
			}
		}()
		var err error
		st := hst.st
		if st == nil && c.Op != "open" {
			res, msg = "nohandle", "no open stack"
			return
		}
		switch c.Op {
		case "open":
			var n *reftable.Stack
			n, err = reftable.NewStack(r.dir, r.cfgOf(h))
			if err == nil {
				reftable.VerifSetAutoCompact(n, hst.auto)
				hst.st = n
				r.stHash[n] = r.cfgOf(h).HashID.Size()
			}
		case "add":
			part := [][2]string{}
			if len(c.Parts) > 0 {
				part = c.Parts[0]
			}
			err = st.Add(r.tableWriter(st, st.NextUpdateIndex(), part, c.Txn*10))
		case "addition":
			var tr *reftable.Addition
			tr, err = st.NewAddition()
			if err == nil {
				idx := st.NextUpdateIndex()
				for i, p := range c.Parts {
					if err = tr.Add(r.tableWriter(st, idx+uint64(i), p, c.Txn*10+i)); err != nil {
						break
					}
				}
				if err == nil {
					err = tr.Commit()
				}
				tr.Close()
			}
		case "abort":
			// an abandoned transaction: tables are added, then the Addition is closed without Commit
			var tr *reftable.Addition
			tr, err = st.NewAddition()
			if err == nil {
				idx := st.NextUpdateIndex()
				for i, p := range c.Parts {
					if err = tr.Add(r.tableWriter(st, idx+uint64(i), p, c.Txn*10+i)); err != nil {
						break
					}
				}
				tr.Close()
				if err == nil {
					res, msg = "rejected", "abandoned by the caller"
					return
				}
			}
		case "overlap":
			// a caller that tries to add, in one transaction, a second table whose update-index range starts
			// inside the range of the first: must be refused (C05: ranges strictly increasing)
			var tr *reftable.Addition
			tr, err = st.NewAddition()
			if err == nil {
				idx := st.NextUpdateIndex()
				for i, p := range c.Parts {
					lo := idx + uint64(i)
					if err = tr.Add(r.tableWriterRange(lo, lo+2, p, c.Txn*10+i)); err != nil {
						break
					}
				}
				if err == nil {
					err = tr.Commit()
				}
				tr.Close()
			}
		case "compactall":
			var e *reftable.LogExpirationConfig
			if c.Expiry != nil {
				e = &reftable.LogExpirationConfig{Time: c.Expiry.Time, MinUpdateIndex: c.Expiry.Min, MaxUpdateIndex: c.Expiry.Max}
			}
			err = st.CompactAll(e)
		case "compactrange":
			if c.Last < reftable.VerifLen(st) && c.First <= c.Last {
				_, err = reftable.VerifCompactRange(st, c.First, c.Last, nil)
			}
		case "autocompact":
			err = st.AutoCompact()
		case "reload":
			err = reftable.VerifReload(st)
		case "reopen":
			st.Close()
			hst.st = nil
			var n *reftable.Stack
			n, err = reftable.NewStack(r.dir, r.cfgOf(h))
			if err == nil {
				reftable.VerifSetAutoCompact(n, hst.auto)
				hst.st = n
				r.stHash[n] = r.cfgOf(h).HashID.Size()
			}
		case "close":
			st.Close()
			hst.st = nil
		case "clean":
			err = st.Clean()
		case "read":
		default:
			res, msg = "other", "unknown op "+c.Op
			return
		}
		res = classify(err)
		if err != nil {
			msg = err.Error()
		}
	}()
	if r.run.Alien[fmt.Sprint(h)] && (res == "other" || res == "nohandle") {
		// a handle configured with the wrong hash function: the stack is right to refuse it, whatever the message
		res = "rejected"
	}
	sched.LogCur(sched.Event{"ev": "ret", "h": h, "res": res, "err": msg, "op": c.Op})
	r.view(h, false)
}

// view reads everything through the handle's merged view.
func (r *runner) view(h int, final bool) {
	hst := r.hs[h]
	if hst.st == nil {
		return
	}
	names := []string{}
	s := strings.TrimSuffix(strings.TrimPrefix(hst.st.String(), "["), "]")
	for _, n := range strings.Fields(s) {
		names = append(names, r.c.AliasName(n))
	}
	ok, msg := true, ""
	pairs := [][2]string{}
	func() {
		defer func() {
			if p := recover(); p != nil {
				ok, msg = false, fmt.Sprint("panic: ", p)
			}
		}()
		m := hst.st.Merged()
		it, err := m.SeekRef("")
		if err != nil {
			ok, msg = false, err.Error()
			return
		}
		for {
			var rec reftable.RefRecord
			more, err := it.NextRef(&rec)
			if err != nil {
				ok, msg = false, err.Error()
				return
			}
			if !more {
				break
			}
			v := ""
			switch {
			case rec.Target != "":
				v = "@" + rec.Target
			case rec.Value != nil:
				v = valString(rec.Value)
			}
			pairs = append(pairs, [2]string{rec.RefName, v})
		}
	}()
	sched.LogCur(sched.Event{"ev": "view", "h": h, "names": names, "ok": ok, "err": msg, "refs": pairs, "final": final, "uptodate": "na"})
}

func (r *runner) exec() (out Out) {
	run := r.run
	out.ID, out.NH = run.ID, run.NH
	out.Drift, out.Sched = []string{}, []int{}
	dir, err := realos.MkdirTemp("", "stack-")
	if err != nil {
		out.Err = err.Error()
		return
	}
	defer realos.RemoveAll(dir)
	r.dir = dir
	r.cfg = reftable.Config{SkipNameCheck: run.Skip}
	if run.Hash == "s256" {
		r.cfg.HashID = reftable.SHA256ID
	} else {
		r.cfg.HashID = reftable.SHA1ID
	}
	c := sched.New(dir)
	c.Decode = decodeTable
	r.c = c
	sched.Install(c)
	defer sched.Install(nil)
	r.hs = map[int]*handleState{}
	r.stHash = map[*reftable.Stack]int{}

	// set-up, performed sequentially by "handle 0" (recorded like everything else)
	r.hs[0] = &handleState{}
	r.doCall(0, Call{Op: "open"})
	for _, call := range run.Init {
		r.doCall(0, call)
	}
	r.doCall(0, Call{Op: "close"})

	// every handle opens the directory during set-up (sequentially), then runs its program
	for h := 1; h <= run.NH; h++ {
		r.hs[h] = &handleState{auto: run.Auto[fmt.Sprint(h)]}
	}
	if run.Pre {
		for h := 1; h <= run.NH; h++ {
			c.Actor = h
			r.doCall(h, Call{Op: "open"})
		}
		c.Actor = 0
	}
	for h := 1; h <= run.NH; h++ {
		h := h
		prog := run.Progs[fmt.Sprint(h)]
		c.Spawn(h, func() {
			for _, call := range prog {
				sched.Gate("call", "", "")
				r.doCall(h, call)
			}
		})
	}

	gates := map[int]int{}
	crashAt := map[int]int{}
	for _, cr := range run.Crash {
		crashAt[cr.H] = cr.Before
	}
	faultAt := map[int]map[int]bool{}
	for _, f := range run.Fault {
		if faultAt[f.H] == nil {
			faultAt[f.H] = map[int]bool{}
		}
		faultAt[f.H][f.Before] = true
	}
	step := func(h int, exp *Expect) {
		if c.Finished(h) || c.Crashed(h) {
			return
		}
		gates[h]++
		if k, ok := crashAt[h]; ok && gates[h] == k {
			c.Crash(h)
			return
		}
		p := c.Pending(h)
		if p.Op == "start" {
			// the pseudo-gate in front of the program: take it together with the first real gate
			c.Step(h)
			if c.Finished(h) {
				return
			}
			p = c.Pending(h)
		}
		if faultAt[h][gates[h]] {
			switch p.Op {
			case "createexcl", "create", "createtrunc", "opentrunc", "openwrite", "open", "tempfile", "rename", "readfile", "readdir", "write":
				c.InjectNext(h)
			}
		}
		nBefore := len(c.Events())
		c.Step(h)
		out.Steps++
		out.Sched = append(out.Sched, h)
		if exp != nil {
			gotOp, gotPk, gotRes := p.Op, sched.PathKind(p.Path), ""
			if p.Op == "call" {
				gotPk = ""
			} else if p.Op == "tempfile" {
				gotPk = "tmp"
			}
			for _, ev := range c.Events()[nBefore:] {
				if ev["ev"] == "fs" && ev["op"] == p.Op {
					gotRes, _ = ev["res"].(string)
					break
				}
			}
			// the order in which a handle removes several stale tables (Go map iteration) is not the model's: which of two
			// handles finds a table already gone is not compared
			orderDependent := gotPk == "tab" && (gotOp == "remove" || gotOp == "open")
			if exp.Op != gotOp || (exp.Pk != "" && exp.Pk != gotPk) || (!orderDependent && exp.Res != "" && gotRes != "" && exp.Res != gotRes) {
				out.Drift = append(out.Drift, fmt.Sprintf("step %d h%d: model %s/%s/%s code %s/%s/%s", out.Steps, h, exp.Op, exp.Pk, exp.Res, gotOp, gotPk, gotRes))
			}
		}
	}
	for i, h := range run.Sched {
		var exp *Expect
		if i < len(run.Expect) && len(out.Drift) == 0 {
			exp = &run.Expect[i]
			if exp.H != h {
				exp = nil
			}
		}
		step(h, exp)
		if out.Steps > stepCap {
			break
		}
	}
	// tail: let everything that is still runnable finish
	rng := rand.New(rand.NewSource(run.Seed))
	prio := map[int]int{}
	for h := 1; h <= run.NH; h++ {
		prio[h] = rng.Intn(1000)
	}
	changePts := map[int]bool{}
	for i := 0; i < run.PCTd; i++ {
		changePts[1+rng.Intn(60)] = true
	}
	rr := 0
	for out.Steps < stepCap {
		rs := c.Runnable()
		if len(rs) == 0 {
			break
		}
		var h int
		switch run.Tail {
		case "random":
			h = rs[rng.Intn(len(rs))]
		case "pct":
			h = rs[0]
			for _, x := range rs {
				if prio[x] > prio[h] {
					h = x
				}
			}
			if changePts[out.Steps] {
				prio[h] = -out.Steps
			}
		case "seq":
			h = rs[0]
		default:
			h = rs[rr%len(rs)]
			rr++
		}
		step(h, nil)
	}

	// a handle that is still runnable after stepCap filesystem calls does not terminate (e.g. a reload that
	// retries for ever): every call of a finite program returns, because the other handles' calls are finite
	for _, h := range c.Runnable() {
		c.Log(sched.Event{"ev": "stuck", "h": h})
		c.Crash(h)
	}

	// final observation by a fresh handle (sequential, handle 0)
	r.hs[0] = &handleState{}
	r.doCallFinal()
	out.Events = c.Events()
	return
}

func (r *runner) doCallFinal() {
	hst := r.hs[0]
	sched.LogCur(sched.Event{"ev": "call", "h": 0, "op": "open", "txn": 0, "marks": []int{}, "recs": [][2]string{}})
	res, msg := "ok", ""
	func() {
		defer func() {
			if p := recover(); p != nil {
				res, msg = "panic", fmt.Sprint(p)
			}
		}()
		n, err := reftable.NewStack(r.dir, r.cfg)
		res = classify(err)
		if err != nil {
			msg = err.Error()
		} else {
			hst.st = n
		}
	}()
	sched.LogCur(sched.Event{"ev": "ret", "h": 0, "res": res, "err": msg, "op": "open"})
	if hst.st != nil {
		r.view(0, !r.run.NoMarks)
		// closing the final handle must not disturb anything either
		sched.LogCur(sched.Event{"ev": "call", "h": 0, "op": "close", "txn": 0, "marks": []int{}, "recs": [][2]string{}})
		hst.st.Close()
		sched.LogCur(sched.Event{"ev": "ret", "h": 0, "res": "ok", "err": "", "op": "close"})
	} else {
		sched.LogCur(sched.Event{"ev": "view", "h": 0, "names": []string{}, "ok": false, "err": "final open failed: " + msg, "refs": [][2]string{}, "final": true, "uptodate": "na"})
	}
}

func main() {
	if len(realos.Args) != 3 {
		fmt.Fprintln(realos.Stderr, "usage: drvproto jobs.json out.json")
		realos.Exit(2)
	}
	data, err := realos.ReadFile(realos.Args[1])
	if err != nil {
		panic(err)
	}
	var jobs struct {
		Runs []Run `json:"runs"`
	}
	if err := json.Unmarshal(data, &jobs); err != nil {
		panic(err)
	}
	outs := make([]Out, 0, len(jobs.Runs))
	for _, run := range jobs.Runs {
		r := &runner{run: run}
		outs = append(outs, r.exec())
	}
	b, err := json.Marshal(outs)
	if err != nil {
		panic(err)
	}
	if err := realos.WriteFile(realos.Args[2], b, 0644); err != nil {
		panic(err)
	}
}
