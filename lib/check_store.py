"""Checks of the store family: C03 C07 C09 C11(stack level) C12 C13.

  1. TLC, exhaustive, on StoreMC (small universes): the theorems of Store.tla - a compaction of any
     range preserves both views, an expiry removes exactly the expired entries, the name rule as
     implemented is equivalent to its declarative meaning, live names never conflict
  2. direction A: behaviours of StoreMC (TLC simulation) are concretised and executed on the real stack
  3. direction B: seeded random histories executed on the real stack
  4. every recorded history is validated by TLC against TraceStore (Store.tla is the oracle for every
     view / seek / RefsFor / accept-reject / stack shape / table content the real code produced)
"""
import json, os, random, re, shutil, sys, time, threading, collections
import common as C, store as S

LEVEL = "model_checking"

# which TraceStore checks decide which property
PROP_CHECKS = {
    "C03": ["C03_RawRefs", "C03_RawLogs", "C03_SeekRef", "C03_SeekLog", "C03_RefView", "C03_LogView", "C03_StableResults", "C03_FaultyReadAnswers", "C10_Readable"],
    "C07": ["C07_RefView", "C07_LogView", "C07_CompactedTables", "C07_StackAfterCompact", "C07_SpecViewPreserved", "C17_AutoCompactRange",
            "C04_CompactResult", "C10_Readable"],
    "C09": ["C09_StaleAddMustFail", "C09_DirUnchanged", "C09_StaleCompactNoop", "C09_StaleCleanNoop", "C09_UpToDate", "C09_NextIndex", "C09_RefView", "C09_LogView",
            "C04_AddResult", "C04_StackAfterAdd"],
    "C04": ["C04_AddResult", "C04_StackAfterAdd", "C04_OpenShape", "C04_CompactResult", "C04_RefView", "C04_LogView", "C14_TablesOnDisk",
            "C10_Readable", "C10_OpenFails", "C09_DirUnchanged", "C12_AcceptIffLegal"],
    "C10": ["C10_Readable", "C10_OpenFails", "C10_ReloadFails", "C10_RefView", "C10_LogView", "C10_UpToDate"],
    "C11": ["C11_RefsFor"],
    "C12": ["C12_AcceptIffLegal", "C12_NoConflict", "C12_RefView"],
    "C16": ["C16_SeqNoLockNoTemp", "C16_SeqNoOrphanTable", "C16_CleanKeepsList", "C16_CleanSucceeds", "C10_Readable", "C04_CompactResult"],
    "C13": ["C13_RefView", "C13_LogView", "C13_SpecExpiryExact", "C07_CompactedTables", "C07_StackAfterCompact", "C04_CompactResult"],
}

VOL = {"quick": 300, "thorough": 6000}
VOLP = {"C04": {"quick": 200, "thorough": 4000}, "C16": {"quick": 200, "thorough": 4000}, "C10": {"quick": 150, "thorough": 4000}}


def seek_steps(rng, g, h=1, raw_too=True):
    """all key classes: each name, below/above it, a prefix, the empty key, beyond last"""
    keys = set()
    for n in g.names:
        keys.update([n, n + "\x01", n[:-1], n[:max(1, len(n) // 2)], n + "/x"])
        if n[-1] > "\x01":
            keys.add(n[:-1] + chr(ord(n[-1]) - 1) + "\x7f")
    keys.update(["", "\x7f\x7f", "refs/", "a"])
    keys = sorted(keys)
    rng.shuffle(keys)
    steps = []
    for k in keys[:10]:
        for raw in ([False, True] if raw_too else [False]):
            steps.append({"op": "seekref", "h": h, "n": k, "raw": raw})
    lk = [n for n in g.names if g.logidx.get(n)] or g.names[:1]
    for n in rng.sample(lk, min(3, len(lk))) + [rng.choice(keys)]:
        idxs = g.logidx.get(n, [1])
        for i in {0, 1, min(idxs), max(idxs), max(idxs) + 1, (1 << 31) - 1, rng.choice(idxs)}:
            for raw in ([False, True] if raw_too else [False]):
                steps.append({"op": "seeklog", "h": h, "n": n, "i": i, "raw": raw})
    return steps


def gen_c03(rng, i):
    deep = i % 4 == 2       # six to nine tables alive at once, several interleaved records each: the merge heap has three levels
    g = S.HistGen(rng, rng.sample(S.NAMES_PLAIN, rng.randint(8, 12) if deep else rng.randint(2, 7)))
    g.steps.append({"op": "open", "h": 1})
    for t in range(rng.randint(6, 9) if deep else rng.randint(1, 5)):
        g.add(part=g.part(maxrefs=7) if deep else None)
    g.observe(tag="C03", raw=True)
    g.steps += seek_steps(rng, g)
    if rng.random() < 0.5 and g.ntab >= 2:
        f = rng.randint(0, g.ntab - 2)
        g.steps.append({"op": "compact", "h": 1, "first": f, "last": rng.randint(f + 1, g.ntab - 1)})
        g.observe(tag="C03", raw=True, after="compact")
        g.steps += seek_steps(rng, g)[:12]
    univ = [s["n"] for s in g.steps if s["op"] in ("seekref", "seeklog")]
    return g.history("c03-%d" % i, univ)


def gen_c07_cancel(rng, i):
    """A bottom range whose tables cancel out completely (refs created, then deleted; optionally a log entry written, then
    deleted), with tables above it: the compaction of exactly that range has an EMPTY result (tombstones may be dropped at the
    bottom), and nothing above the range may be disturbed."""
    names = rng.sample(S.NAMES_PLAIN, rng.randint(4, 8))
    k = rng.randint(1, 2)
    low, high = names[:k], names[k:]
    g = S.HistGen(rng, high, logs=rng.random() < 0.5)
    g.steps.append({"op": "open", "h": 1})
    nlow = rng.choice([2, 2, 3])
    withlog = rng.random() < 0.4
    for t in range(nlow):
        last = t == nlow - 1
        refs = [{"n": n, "v": ["d", "", ""] if last else S.rand_val(rng, low)} for n in sorted(low)]
        logs = []
        if withlog and t == 0:
            logs = [{"n": low[0], "i": 0, "del": False, "old": "A", "new": "B", "user": "u", "email": "u@e", "time": 5, "tz": 0, "msg": "commit: x"}]
        if withlog and last:
            logs = [{"n": low[0], "i": 1, "del": True}]
        g.add(part={"refs": refs, "logs": logs})
    for t in range(rng.randint(1, 4)):
        g.add()
    g.observe(tag="C07", raw=False, after="add")
    g.steps.append({"op": "compact", "h": 1, "first": 0, "last": nlow - 1})
    g.ntab -= nlow        # the result is empty: the range disappears from the list
    g.observe(tag="C07", raw=rng.random() < 0.5, after="compact")
    g.add()
    g.observe(tag="C07", raw=False, after="add")
    g.steps.append({"op": "compact", "h": 1, "all": True})
    g.observe(tag="C07", raw=False, after="compact")
    return g.history("c07-%d" % i)


def gen_c07(rng, i):
    if i % 9 == 4:
        return gen_c07_cancel(rng, i)
    g = S.HistGen(rng, rng.sample(S.NAMES_PLAIN, rng.randint(2, 9)))
    auto = rng.random() < 0.3
    g.steps.append({"op": "open", "h": 1})
    n = rng.randint(2, 40 if rng.random() < 0.1 else 9)
    for t in range(n):
        g.add(auto=auto)
        if auto:
            g.ntab = 0  # unknown; explicit compactions use CompactAll only
        g.observe(tag="C07", raw=False, after="compact" if auto else "add")
        x = rng.random()
        if x < 0.35 and not auto and g.ntab >= 2:
            f = rng.randint(0, g.ntab - 2)
            l = rng.randint(f + 1, g.ntab - 1)
            g.steps.append({"op": "compact", "h": 1, "first": f, "last": l})
            g.ntab -= l - f
            g.observe(tag="C07", raw=rng.random() < 0.3, after="compact")
        elif x < 0.45:
            g.steps.append({"op": "compact", "h": 1, "all": True})
            g.ntab = min(g.ntab, 1)
            g.observe(tag="C07", raw=False, after="compact")
    return g.history("c07-%d" % i)


def gen_c09(rng, i):
    nh = rng.choice([2, 2, 3])
    cfg = S.rand_cfg(rng)
    cfg["skipnamecheck"] = rng.random() < 0.25
    g = S.HistGen(rng, rng.sample(S.NAMES_PLAIN, rng.randint(2, 5)), nh=nh, cfg=cfg, logs=rng.random() < 0.3)
    g.steps.append({"op": "open", "h": 1})
    for t in range(rng.choice([0, 1, 3, 4, 5])):     # a few tables first, so that lower ranges exist
        g.add(h=1)
    for h in range(2, nh + 1):
        g.steps.append({"op": "open", "h": h})
    ntab = g.ntab                                      # upper bound of the current stack depth
    for t in range(rng.randint(3, 10)):
        h = rng.randint(1, nh)
        x = rng.random()
        if x < 0.5:
            multi = rng.random() < 0.2
            g.add(h=h, multi=multi, nparts=2 if multi else 1)
            g.steps.append({"op": "uptodate", "h": h, "tag": "C09"})
            if not multi and rng.random() < 0.8:
                # immediate retry without interference: must succeed if the first attempt failed for staleness
                g.add(h=h)
                if rng.random() < 0.3:
                    # ... while a retry of the transaction as it was prepared before the refresh (same update index) must
                    # fail if that index has been taken in the meantime
                    g.steps[-1]["oldidx"] = True
                    g.add(h=h)
                g.steps.append({"op": "uptodate", "h": h, "tag": "C09"})
                ntab += 1
            ntab += 1
            g.steps.append({"op": "view", "h": h, "tag": "C09", "hasraw": False})
        elif x < 0.65:
            g.steps.append({"op": "compact", "h": h, "all": True})
            g.steps.append({"op": "uptodate", "h": h, "tag": "C09"})
        elif x < 0.9 and ntab >= 2:
            f = rng.randint(0, max(0, ntab - 2))
            g.steps.append({"op": "compact", "h": h, "first": f, "last": rng.randint(f + 1, max(f + 1, ntab - 1))})
        else:
            g.steps.append({"op": "view", "h": h, "tag": "C09", "hasraw": False})
        if rng.random() < 0.25:
            # Clean through a handle that may be out of date (another handle compacted or added meanwhile): nothing may change
            g.steps.append({"op": "clean", "h": rng.randint(1, nh)})
        g.steps.append({"op": "disk", "h": h, "after": "add"})
    return g.history("c09-%d" % i)


def gen_c11(rng, i):
    g = S.HistGen(rng, rng.sample(S.NAMES_PLAIN, rng.randint(2, 9)), logs=i % 4 == 1)
    g.steps.append({"op": "open", "h": 1})
    for t in range(rng.randint(1, 6)):
        part = None
        if g.logs and rng.random() < 0.4:
            # a table that holds reflog entries only (no ref section at all) somewhere in the stack
            part = g.part()
            part["refs"] = []
            if not part["logs"]:
                part["logs"] = [S.rand_log(rng, g.names[0], [], g.cfg["exact"])]
        g.add(part=part)
        if rng.random() < 0.25 and g.ntab >= 2:
            f = rng.randint(0, g.ntab - 2)
            l = rng.randint(f + 1, g.ntab - 1)
            g.steps.append({"op": "compact", "h": 1, "first": f, "last": l})
            g.ntab -= l - f
        for oid in S.OIDS + ["Z"]:
            g.steps.append({"op": "refsfor", "h": 1, "oid": oid})
    g.observe(tag="C11", raw=False)
    return g.history("c11-%d" % i)


def gen_c12_revive(rng, i):
    """a ref in the bottom table, updated above it, then replaced by one of its children in a legal transaction (delete a, create
    a/b); then the tables ABOVE the bottom one are compacted: the deletion must survive, or a and a/b are both live"""
    par, kid, kid2 = rng.choice([("a", "a/b", "a/c"), ("b", "b/c", "b/d"), ("a/b", "a/b/c", "a/b/d")])
    g = S.HistGen(rng, [par, kid, kid2, "ab", "a-b"], cfg=S.rand_cfg(rng), logs=False)
    g.steps.append({"op": "open", "h": 1})
    val = lambda: ["v", rng.choice(S.OIDS), ""]
    g.add(part={"refs": [{"n": n, "v": val()} for n in sorted({par, "ab"})], "logs": []})
    for t in range(rng.randint(0, 2)):
        g.add(part={"refs": [{"n": par, "v": val()}], "logs": []})
    g.add(part={"refs": [{"n": n, "v": v} for n, v in sorted([(par, ["d", "", ""]), (kid, val())])], "logs": []})
    g.steps.append({"op": "view", "h": 1, "tag": "C12", "hasraw": False})
    if rng.random() < 0.5:
        g.add(part={"refs": [{"n": "a-b", "v": val()}], "logs": []})
    g.steps.append({"op": "compact", "h": 1, "first": 1, "last": g.ntab - 1})
    g.steps.append({"op": "view", "h": 1, "tag": "C12", "hasraw": False})
    g.add(part={"refs": [{"n": kid2, "v": val()}], "logs": []})          # legal: must be accepted
    g.steps.append({"op": "view", "h": 1, "tag": "C12", "hasraw": False})
    g.add(part={"refs": [{"n": par, "v": val()}], "logs": []})           # illegal now: must be refused
    g.steps.append({"op": "view", "h": 1, "tag": "C12", "hasraw": False})
    return g.history("c12-%d" % i)


def gen_c12(rng, i):
    if i % 11 == 5:
        return gen_c12_revive(rng, i)
    names = rng.sample(S.NAMES_CONFLICT, rng.randint(3, 8))
    cfg = S.rand_cfg(rng)
    g = S.HistGen(rng, names, cfg=cfg, logs=False)
    g.steps.append({"op": "open", "h": 1})
    for t in range(rng.randint(2, 7)):
        multi = rng.random() < 0.3
        g.add(multi=multi, nparts=2 if multi else 1)
        if multi and rng.random() < 0.5:
            # the caller goes on after a refused table and commits the rest (a refused table leaves no effect)
            g.steps[-1]["goon"] = True
            if rng.random() < 0.5:
                g.steps[-1]["parts"].append(g.part())
        g.steps.append({"op": "view", "h": 1, "tag": "C12", "hasraw": False})
        if i % 3 == 0 and rng.random() < 0.4 and t >= 1:
            # compactions between the transactions (ranges above the bottom table keep their tombstones): the live set is the same afterwards
            f = rng.randint(0, max(0, t - 1))
            g.steps.append({"op": "compact", "h": 1, "first": f, "last": f + rng.randint(1, 2)} if rng.random() < 0.75 else {"op": "compact", "h": 1, "all": True})
            g.steps.append({"op": "view", "h": 1, "tag": "C12", "hasraw": False})
    return g.history("c12-%d" % i)


def gen_c13(rng, i):
    nh = rng.choice([1, 1, 2])
    g = S.HistGen(rng, rng.sample(S.NAMES_PLAIN, rng.randint(1, 4)), nh=nh)
    for h in range(1, nh + 1):
        g.steps.append({"op": "open", "h": h})

    def writes(h):
        for t in range(rng.randint(1, 5)):
            p = g.part()
            # several log entries, times chosen around the limits
            for n in rng.sample(g.names, min(len(g.names), rng.randint(1, 3))):
                if not any(l["n"] == n for l in p["logs"]):
                    p["logs"].append(S.rand_log(rng, n, [], g.cfg["exact"]))
            g.add(h=h, part=p)
            if nh > 1 and rng.random() < 0.7:
                g.add(h=h, part=g.part())      # retry after a possible stale failure
        if rng.random() < 0.4:
            g.steps.append({"op": "compact", "h": h, "all": True})
    writes(rng.randint(1, nh))
    g.observe(h=1, tag="C13", raw=False)
    configs = []
    for rep in range(rng.randint(1, 4)):
        idxmax = g.nextidx
        if configs and rng.random() < 0.5:
            e = rng.choice(configs)        # the same configuration again, after other writes
        else:
            e = {"time": rng.choice([0, 0, 1, 5, 6, 10, 15, 16, 20, 21, 30]),
                 "min": rng.choice([0, 0, 1, 2, idxmax // 2, idxmax - 1, idxmax, idxmax + 3]),
                 "max": rng.choice([0, 0, 1, 2, idxmax // 2, idxmax - 1, idxmax, idxmax + 3])}
            configs.append(e)
        h = rng.randint(1, nh)
        refreshed = True
        if nh > 1:
            if rng.random() < 0.3:
                # the other handle commits, then this - now stale - handle asks for the expiry: it must do nothing, and
                # in particular leave every listed table where it is
                o = 1 + h % nh
                g.add(h=o, part=g.part())
                g.add(h=o, part=g.part())
                refreshed = False
            else:
                g.add(h=h, part=g.part())          # brings a stale handle up to date (fails, refreshes) or commits
                if rng.random() < 0.5:
                    g.add(h=h, part=g.part())
        g.steps.append({"op": "compact", "h": h, "all": True, "expiry": e})
        g.steps.append({"op": "disk", "h": h, "after": "compact"})
        if refreshed:
            g.steps.append({"op": "view", "h": h, "tag": "C13", "hasraw": False})
        else:
            o = 1 + h % nh
            g.steps.append({"op": "view", "h": o, "tag": "C13", "hasraw": False})
            g.steps.append({"op": "close", "h": h})
            g.steps.append({"op": "open", "h": h})
            g.steps.append({"op": "view", "h": h, "tag": "C13", "hasraw": False})
        if rng.random() < 0.6:
            writes(rng.randint(1, nh))
    return g.history("c13-%d" % i)


def gen_c10(rng, i):
    """snapshots, sequentially: 2-3 handles; a handle keeps reading (full view, refs and logs) while the others add, compact
    ranges, compact everything - also a stack of ONE table with an expiry configuration, whose result replaces a table by a
    table with other content - and delete; an idle handle must keep showing exactly the version it loaded, and after an
    explicit reload, a refreshing failed Add or a fresh open exactly the committed version."""
    nh = rng.choice([2, 2, 3])
    g = S.HistGen(rng, rng.sample(S.NAMES_PLAIN, rng.randint(1, 4)), nh=nh)
    for h in range(1, nh + 1):
        g.steps.append({"op": "open", "h": h})

    def look(h):
        g.steps.append({"op": "view", "h": h, "tag": "C10", "hasraw": False})
        if rng.random() < 0.3:
            g.steps.append({"op": "uptodate", "h": h, "tag": "C10"})

    def fresh(h):      # bring h up to date: explicit reload, or an Add that fails and refreshes (then retried)
        if rng.random() < 0.6:
            g.steps.append({"op": "reload", "h": h})
        else:
            g.add(h=h, part=g.part())
            g.add(h=h, part=g.part())

    for rnd in range(rng.randint(2, 6)):
        w = rng.randint(1, nh)
        fresh(w)
        x = rng.random()
        if x < 0.35:
            p = g.part()
            for n in rng.sample(g.names, min(len(g.names), rng.randint(1, 2))):
                if not any(l["n"] == n for l in p["logs"]):
                    p["logs"].append(S.rand_log(rng, n, [], g.cfg["exact"]))
            g.add(h=w, part=p)
        elif x < 0.5:
            g.steps.append({"op": "compact", "h": w, "all": True})
        elif x < 0.85:
            # everything into one table, then an expiry on that single table (same handle, which is up to date)
            g.steps.append({"op": "compact", "h": w, "all": True})
            idxmax = g.nextidx
            e = {"time": rng.choice([0, 6, 11, 16, 30]), "min": rng.choice([0, 1, idxmax // 2, idxmax]), "max": rng.choice([0, 0, idxmax // 2, idxmax + 3])}
            g.steps.append({"op": "compact", "h": w, "all": True, "expiry": e})
        else:
            g.steps.append({"op": "compact", "h": w, "first": 0, "last": 1})
        g.steps.append({"op": "disk", "h": w, "after": "compact"})
        for h in range(1, nh + 1):
            look(h)                      # the writer sees the new version, the others still their own
        r = rng.randint(1, nh)
        fresh(r)
        look(r)
        if rng.random() < 0.3:
            g.steps.append({"op": "close", "h": r})
            g.steps.append({"op": "open", "h": r})
            look(r)
    return g.history("c10-%d" % i)


def gen_c16(rng, i):
    """sequential residue: transactions that are refused (conflicts, also in the second table of an Addition), empty transactions,
    compactions whose result is empty (everything deleted, everything expired), prefix / middle compactions, several handles"""
    nh = rng.choice([1, 1, 2])
    names = rng.sample(["a", "a/b", "b", "b/c", "c", "refs/heads/x"], rng.randint(2, 4))
    g = S.HistGen(rng, names, nh=nh, logs=rng.random() < 0.5)
    for h in range(1, nh + 1):
        g.steps.append({"op": "open", "h": h})
    live = []
    for t in range(rng.randint(2, 9)):
        h = rng.randint(1, nh)
        x = rng.random()
        if x < 0.25 and live:
            # delete everything that is live: a later compaction from the bottom has an empty result
            p = {"refs": [{"n": n, "v": ["d", "", ""]} for n in sorted(set(live))], "logs": []}
            live = []
            g.add(h=h, part=p)
        elif x < 0.35:
            g.add(h=h, part={"refs": [], "logs": []})
        elif x < 0.5:
            g.add(h=h, multi=True, nparts=2)
        else:
            p = g.part()
            live += [r["n"] for r in p["refs"] if r["v"][0] != "d"]
            g.add(h=h, part=p)
        if nh > 1 and rng.random() < 0.5:
            g.add(h=h, part=g.part())
        y = rng.random()
        if y < 0.3:
            g.steps.append({"op": "compact", "h": h, "all": True})
        elif y < 0.45:
            g.steps.append({"op": "compact", "h": h, "first": 0, "last": rng.randint(1, 2)})
        elif y < 0.55:
            g.steps.append({"op": "compact", "h": h, "all": True, "expiry": {"time": rng.choice([0, 30]), "min": rng.choice([0, 99]), "max": 0}})
        if rng.random() < 0.25:
            g.steps.append({"op": "clean", "h": rng.randint(1, nh)})      # also through a handle that is out of date
        if rng.random() < 0.3:
            g.steps.append({"op": "view", "h": h, "tag": "C16", "hasraw": False})
    return g.history("c16-%d" % i)


def gen_c04(rng, i):
    """failed and abandoned transactions leave no effect, sequentially: multi-table Additions in which a table is refused and the
    caller gives up - or goes on and commits the rest; refused single transactions; empty ones; a second handle that is out of date;
    compactions in between.  Names from the conflict universe, so that refusals are frequent."""
    nh = rng.choice([1, 1, 2])
    names = rng.sample(S.NAMES_CONFLICT, rng.randint(3, 7))
    g = S.HistGen(rng, names, nh=nh, cfg=S.rand_cfg(rng), logs=rng.random() < 0.3)
    for h in range(1, nh + 1):
        g.steps.append({"op": "open", "h": h})
    for t in range(rng.randint(3, 8)):
        h = rng.randint(1, nh)
        x = rng.random()
        if x < 0.45:
            g.add(h=h, multi=True, nparts=rng.choice([2, 2, 3]))
            if nh == 1 and rng.random() < 0.6:
                g.steps[-1]["goon"] = True
        elif x < 0.55:
            g.add(h=h, part={"refs": [], "logs": []})
        else:
            g.add(h=h)
        g.steps.append({"op": "disk", "h": h, "after": "add"})
        g.steps.append({"op": "view", "h": h, "tag": "C04", "hasraw": False})
        if rng.random() < 0.2 and g.ntab >= 2:
            g.steps.append({"op": "compact", "h": h, "all": True})
            g.steps.append({"op": "view", "h": h, "tag": "C04", "hasraw": False})
    g.steps.append({"op": "open", "h": 1})       # a handle opened afterwards sees the committed transactions, nothing else
    g.steps.append({"op": "view", "h": 1, "tag": "C04", "hasraw": False})
    return g.history("c04-%d" % i)


GEN = {"C04": gen_c04, "C16": gen_c16, "C10": gen_c10, "C03": gen_c03, "C07": gen_c07, "C09": gen_c09, "C11": gen_c11, "C12": gen_c12, "C13": gen_c13}


def signature(check, trace, line):
    ev = trace["events"][line - 1] if 0 < line <= len(trace["events"]) else {}
    return "%s@%s" % (check, ev.get("op", "?"))


def run(pid, tier):
    t0 = time.time()
    seed = C.seed()
    rng = random.Random(seed * 1000003 + int(pid[1:]))
    sc = C.mkscratch(pid)
    known = C.known_findings().get(pid, {})
    try:
        mod = C.assemble(sc)
        drv = C.gobuild(mod, "drvstore", os.path.join(sc, "drvstore"))

        exh = []

        def exhaustive():
            import storemc
            exh.extend(storemc.exhaustive(pid, tier, sc))

        th = threading.Thread(target=exhaustive)
        th.start()

        hists = [GEN[pid](rng, i) for i in range(VOLP.get(pid, VOL)[tier])]
        import storemc
        walks = storemc.walk_histories(pid, tier, sc, seed)
        hists += walks
        cover_info = None
        if pid == "C12":
            cov, total = storemc.names_cover(tier, seed)
            hists += cov
            cover_info = {"names_transition_cover": {"pairs_live_set_x_transaction": total, "histories": len(cov), "complete": True}}
        outs = S.run_driver(drv, hists, sc)
        byid = {o["id"]: o for o in outs}
        hbyid = {h["id"]: h for h in hists}
        viols, rej, vstats = S.validate(outs, sc)
        th.join()

        mine = [v for v in viols if v[0] in PROP_CHECKS[pid]]
        others = [v for v in viols if v[0] not in PROP_CHECKS[pid]]
        nviol, seen_known = 0, set()
        bysig = collections.OrderedDict()
        for chk, tid, line in mine:
            bysig.setdefault(signature(chk, byid[tid], line), []).append((chk, tid, line))
        for sig, lst in bysig.items():
            if sig in known:
                seen_known.add(sig)
                print("KNOWN-FINDING: property=%s %s (%s)" % (pid, known[sig], sig))
                continue
            chk, tid, line = lst[0]
            ev = byid[tid]["events"][line - 1]
            path = C.save_replay(pid, "%s-%d" % (chk, seed), {"property": pid, "check": chk, "line": line, "signature": sig, "count": len(lst),
                                                                 "history": hbyid[tid], "event": ev})
            print("VIOLATION property=%s replay=%s" % (pid, path))
            print("  %s failed at step %d (%s) of history %s; %d histories with this signature" % (chk, line, ev.get("op"), tid, len(lst)))
            nviol += 1

        states = trans = 0
        for r in exh:
            states += r["distinct"]
            trans += r["generated"]
            if r["rc"] == -9:
                if C.within_budget(r, tier):
                    continue
                raise C.Inconclusive("exhaustive TLC run timed out")
            inv, dead = C.tlc_violations(r["out"])
            if inv or "is violated" in r["out"]:
                raise C.Inconclusive("the specification StoreMC violates its own theorem %s: specification defect\n%s" % (inv, r["out"][-2500:]))
            if "Model checking completed. No error has been found" not in r["out"]:
                raise C.Inconclusive("TLC failed on StoreMC:\n" + r["out"][-3000:])
        if rej and nviol == 0:
            raise C.Inconclusive("histories rejected by TraceStore (recorder mismatch): %s" % rej[:3])

        opcount = collections.Counter(e["op"] for o in outs for e in o["events"])
        sample = []
        if outs:
            for e in outs[0]["events"][:14]:
                sample.append({k: v for k, v in e.items() if k in ("op", "h", "res", "first", "last", "expiry", "dirshape", "k", "i", "oid", "ok", "tag")})
        cov = dict(states=max(states, 1), transitions=max(trans, 1),
                   traces_validated_against_impl=len(outs) - len(set(v[1] for v in mine)),
                   samples=[{"history_steps": sample}, {"history_input": hists[0]["steps"][:4]}],
                   exhaustive=bool(exh) and all("No error has been found" in r["out"] for r in exh),
                   exhaustive_configs=[dict(name=r.get("name"), distinct=r["distinct"], generated=r["generated"], wall=round(r["wall"], 1), complete=not r.get("incomplete", False)) for r in exh],
                   histories_random=len(hists) - len(walks), histories_from_tlc=len(walks),
                   events_validated=vstats["events"], trace_states=vstats["states"], events_by_kind=dict(opcount),
                   checks=PROP_CHECKS[pid], other_check_failures=len(others), known_findings_seen=sorted(seen_known))
        if cover_info:
            cov.update(cover_info)
        C.write_evidence(pid, tier, LEVEL, cov, time.time() - t0, nviol,
                         assumptions=["sequential histories: one call at a time (interleavings are the protocol family's business)",
                                      "names restricted to the generated universe; update indices < 2^31",
                                      "table contents on disk are projected by the independent decoder fmtdec"])
        print("%s %s: %d spec states, %d histories (%d from TLC), %d events, %d violations, %.1fs" %
              (pid, tier, states, len(outs), len(walks), vstats["events"], nviol, time.time() - t0))
        return 1 if nviol else 0
    finally:
        shutil.rmtree(sc, ignore_errors=True)


def replay(pid, path):
    with open(path) as f:
        rp = json.load(f)
    sc = C.mkscratch(pid + "-replay")
    try:
        mod = C.assemble(sc)
        drv = C.gobuild(mod, "drvstore", os.path.join(sc, "drvstore"))
        outs = S.run_driver(drv, [rp["history"]], sc)
        viols, rej, _ = S.validate(outs, sc, jvms=1, debug=True)
        if os.environ.get("VERIF_VERBOSE"):
            for i, e in enumerate(outs[0]["events"], 1):
                print(i, json.dumps(e)[:300])
        mine = [v for v in viols if v[0] in PROP_CHECKS[pid]]
        for v in mine:
            print("VIOLATION property=%s replay=%s" % (pid, path))
            print("  %s at step %d" % (v[0], v[2]))
        return 1 if mine else 0
    finally:
        shutil.rmtree(sc, ignore_errors=True)
