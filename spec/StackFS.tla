------------------------------ MODULE StackFS ------------------------------
(***************************************************************************)
(* Observable level of the reftable stack protocol (stack.go).             *)
(*                                                                         *)
(* This module models ONLY what an outside observer of the stack directory *)
(* and of the API can see: the directory (path -> inode), the inodes       *)
(* (creator, staged list content or table content), which API call every   *)
(* handle is in, which transactions were committed / acknowledged, every   *)
(* version tables.list ever had.  Its operators are the filesystem calls   *)
(* themselves; it says nothing about which call a handle makes next.       *)
(*                                                                         *)
(* It is used twice:                                                       *)
(*   - StackProto.tla restricts every handle to the step sequences of      *)
(*     stack.go (one action per filesystem call) and is model-checked      *)
(*     exhaustively;                                                       *)
(*   - TraceStackFS.tla replays filesystem traces recorded from the real   *)
(*     code (every os/ioutil call of every handle, in scheduler order).    *)
(* The property predicates (C04 C05 C06 C08 C09 C10 C16) are defined here, *)
(* once, and are evaluated in every state of both.                         *)
(*                                                                         *)
(* Files are INODES, not paths: a handle that lost tables.list.lock keeps  *)
(* writing through its descriptor, and a third party's lock inode can be   *)
(* renamed onto tables.list.                                               *)
(*                                                                         *)
(* Variable groups.  Every Fs... operator below fully specifies the primed *)
(* values of the FS group; FsCall/FsReturn/FsCrash/ApiUnch fully specify   *)
(* the API group.  An action of a using module is one operator of each     *)
(* group plus that module's own variables.                                 *)
(***************************************************************************)
EXTENDS Naturals, Sequences, FiniteSets, TLC, SequencesExt, Functions

VARIABLES
  \* ---- FS group
  dir,        \* [path (string) -> inode id]        the directory
  ino,        \* Seq of inodes: [creator, kind, names, tab]
  lver,       \* set of every content (Seq of names) tables.list ever had
  committed,  \* Seq of transaction ids in the order of the renames onto tables.list
  cmarks,     \* set of the marks (one per table a transaction writes) of committed transactions
  lastRead,   \* [handle -> names it last read from tables.list]
  tabHist,    \* [table name -> table content] of every table ever moved into place
  viol,       \* set of names of action-level property clauses that were violated
  \* ---- API group
  pending,    \* [handle -> call in progress, or NoCall]
  acked,      \* set of transaction ids whose call returned success
  failed,     \* set of transaction ids whose call returned failure
  crashed     \* set of handles that were killed

fsgroup  == <<dir, ino, lver, committed, cmarks, lastRead, tabHist, viol>>
apigroup == <<pending, acked, failed, crashed>>
fsvars   == <<fsgroup, apigroup>>

NoCall == [op |-> "none", txn |-> 0, marks |-> {}, norecs |-> FALSE]
NoTab  == [min |-> 0, max |-> 0, txns |-> <<>>, hash |-> "none", refs |-> <<>>]

(* kinds of inode *)
KFile == "file"   \* created by an open-for-writing: lock + staging files
KTmp  == "tmp"    \* created by TempFile
LIST  == "list"
LOCK  == "list.lock"

(* path kinds, supplied by the caller (TLC cannot take strings apart) *)
PKList == "list"  PKLock == "listlock"  PKTab == "tab"  PKTabLock == "tablock"  PKTmp == "tmp"  PKOther == "other"

Exists(p) == p \in DOMAIN dir
Ino(p)    == ino[dir[p]]

DirPut(p, i) == [q \in DOMAIN dir \cup {p} |-> IF q = p THEN i ELSE dir[q]]
DirDel(p)    == [q \in DOMAIN dir \ {p} |-> dir[q]]
DirMove(p, q) == [r \in (DOMAIN dir \ {p}) \cup {q} |-> IF r = q THEN dir[p] ELSE dir[r]]

ListNames == IF Exists(LIST) THEN Ino(LIST).names ELSE <<>>

IsTable(i) == ino[i].tab # NoTab
IsTableAt(p) == Exists(p) /\ IsTable(dir[p])

(* marks accounted for by the tables a list names; a name that is missing   *)
(* or not a complete table contributes nothing                              *)
MarkSeqOfName(n)  == IF IsTableAt(n) THEN Ino(n).tab.txns ELSE <<>>
MarkSeqOfNames(s) == FoldLeft(LAMBDA acc, n : acc \o MarkSeqOfName(n), <<>>, s)
MarksOfNames(s)   == UNION {Range(MarkSeqOfName(s[k])) : k \in DOMAIN s}

FlagIf(c, name) == IF c THEN {name} ELSE {}

-----------------------------------------------------------------------------
(* Results of filesystem calls in the current state                         *)
CreateExclRes(p) == IF Exists(p) THEN "EEXIST" ELSE "ok"
ExistRes(p)      == IF Exists(p) THEN "ok" ELSE "ENOENT"   \* open, readfile, remove, rename(source), stat

NewIno(h, kind) == [creator |-> h, kind |-> kind, names |-> <<>>, tab |-> NoTab]

(* no filesystem effect (failed call, pure read of something other than the list) *)
FsNop == UNCHANGED fsgroup

(* successful O_EXCL create, or TempFile: p does not exist *)
FsCreate(h, p, kind) ==
  /\ ino' = Append(ino, NewIno(h, kind))
  /\ dir' = DirPut(p, Len(ino) + 1)
  /\ UNCHANGED <<lver, committed, cmarks, lastRead, tabHist, viol>>

(* open for writing with truncation of an existing file *)
FsTruncate(h, p, pk) ==
  /\ ino' = [ino EXCEPT ![dir[p]].names = <<>>, ![dir[p]].tab = NoTab]
  /\ lver' = IF p = LIST THEN lver \cup {<<>>} ELSE lver
  /\ viol' = viol \cup FlagIf(pk = PKList, "C06_ListTruncated")
                  \cup FlagIf(pk = PKTab /\ p \in Range(ListNames), "C05_ListedOverwritten")
  /\ UNCHANGED <<dir, committed, cmarks, lastRead, tabHist>>

(* ReadFile(tables.list) by h *)
FsReadList(h) ==
  /\ lastRead' = [lastRead EXCEPT ![h] = ListNames]
  /\ UNCHANGED <<dir, ino, lver, committed, cmarks, tabHist, viol>>

(* write of a list of names through a descriptor onto inode i; holdsPath: the *)
(* inode is still the one at tables.list.lock                                 *)
FsWriteNames(h, i, names) ==
  /\ ino' = [ino EXCEPT ![i].names = names]
  /\ lver' = IF Exists(LIST) /\ dir[LIST] = i THEN lver \cup {names} ELSE lver
  /\ viol' = viol \cup FlagIf(~(Exists(LOCK) /\ dir[LOCK] = i /\ ino[i].creator = h), "C08_WriteWithoutLock")
  /\ UNCHANGED <<dir, committed, cmarks, lastRead, tabHist>>

(* a temporary was completely written and closed: it is now a complete table *)
FsSealTable(i, t) ==
  /\ ino' = [ino EXCEPT ![i].tab = t]
  /\ UNCHANGED <<dir, lver, committed, cmarks, lastRead, tabHist, viol>>

LockKind(pk) == pk \in {PKLock, PKTabLock}

(* successful remove(p) *)
FsRemove(h, p, pk) ==
  /\ dir' = DirDel(p)
  /\ viol' = viol \cup FlagIf(LockKind(pk) /\ Ino(p).creator # h, "C08_OwnerOnly")
                  \* C16: Close and Clean remove only stale files - not the lock of a process that is alive
                  \cup FlagIf(LockKind(pk) /\ Ino(p).creator # h /\ Ino(p).creator \notin crashed /\ pending[h].op \in {"clean", "close", "reopen"}, "C16_GcRemovesLive")
                  \cup FlagIf(pk = PKTab /\ p \in Range(ListNames), "C05_NoGcOfListed")
                  \* ... in particular by a handle whose last reading of tables.list is out of date (C09: a stale handle leaves the directory alone)
                  \cup FlagIf(pk = PKTab /\ p \in Range(ListNames) /\ lastRead[h] # ListNames, "C09_StaleRemovesListed")
                  \cup FlagIf(pk = PKList, "C05_ListRemoved")
  /\ UNCHANGED <<ino, lver, committed, cmarks, lastRead, tabHist>>

(* successful rename(p -> q), q # tables.list *)
FsRename(h, p, pk, q, qk) ==
  /\ dir' = DirMove(p, q)
  /\ tabHist' = IF qk = PKTab
                THEN [n \in DOMAIN tabHist \cup {q} |-> IF n = q THEN Ino(p).tab ELSE tabHist[n]]
                ELSE tabHist
  /\ viol' = viol \cup FlagIf(LockKind(pk) /\ Ino(p).creator # h, "C08_OwnerOnly")
                  \cup FlagIf(pk = PKTab /\ p \in Range(ListNames), "C05_NoGcOfListed")
                  \cup FlagIf(pk = PKList, "C05_ListRemoved")
                  \cup FlagIf(Exists(q) /\ q \in Range(ListNames), "C05_ListedOverwritten")
  /\ UNCHANGED <<ino, lver, committed, cmarks, lastRead>>

(* THE COMMIT POINT: successful rename(p -> tables.list).  All clauses of     *)
(* C04/C08/C09 that speak about a commit are evaluated here.                  *)
CommitNew(p)   == Ino(p).names
CommitAdds(p)  == MarksOfNames(CommitNew(p)) \ MarksOfNames(ListNames)
CommitDrops(p) == MarksOfNames(ListNames) \ MarksOfNames(CommitNew(p))

FsCommit(h, p) ==
  LET adds == CommitAdds(p)
      mine == pending[h].marks
      isTxn == adds # {} /\ pending[h].txn # 0 /\ pending[h].txn \notin Range(committed)
  IN
  /\ dir' = DirMove(p, LIST)
  /\ lver' = lver \cup {CommitNew(p)}
  /\ committed' = IF isTxn THEN Append(committed, pending[h].txn) ELSE committed
  /\ cmarks' = cmarks \cup adds
  /\ viol' = viol \cup FlagIf(Ino(p).creator # h, "C08_NoStolenCommit")
                  \cup FlagIf(CommitDrops(p) # {}, "C04_LostAtCommit")
                  \cup FlagIf(~(adds \subseteq mine), "C04_ForeignCommit")
                  \cup FlagIf(adds # {} /\ adds # mine, "C04_PartialCommit")
                  \cup FlagIf(lastRead[h] # ListNames, "C09_StaleCommit")
                  \* a table may only be rewritten (dropped from the list by a compaction) by the handle holding its lock
                  \cup FlagIf(\E n \in Range(ListNames) \ Range(CommitNew(p)) :
                                ~(Exists(n \o ".lock") /\ Ino(n \o ".lock").creator = h), "C08_CompactsUnlocked")
  /\ UNCHANGED <<ino, lastRead, tabHist>>

-----------------------------------------------------------------------------
(* API group *)
ApiUnch == UNCHANGED apigroup

FsCall(h, c) ==
  /\ pending' = [pending EXCEPT ![h] = c]
  /\ UNCHANGED <<acked, failed, crashed>>

(* res \in {"ok", "lock", "rejected", "other", "panic"}.  A transaction     *)
(* without marker refs (marks = {}) is not tracked.  norecs: the transaction *)
(* writes no record at all - it can never be committed nor refused.        *)
FsReturn(h, res) ==
  LET c == pending[h]  tracked == c.txn # 0 /\ c.marks # {} IN
  /\ pending' = [pending EXCEPT ![h] = NoCall]
  /\ acked'  = IF tracked /\ res = "ok" THEN acked \cup {c.txn} ELSE acked
  /\ failed' = IF tracked /\ res # "ok" THEN failed \cup {c.txn} ELSE failed
  /\ UNCHANGED crashed

(* clauses about a return value; the caller adds them to viol *)
ReturnViol(h, res) ==
     FlagIf(res \notin {"ok", "lock", "rejected"}, "C04_OtherFailure")
  \cup FlagIf(pending[h].txn # 0 /\ pending[h].norecs /\ pending[h].op # "abort" /\ res \notin {"ok", "lock"}, "C04_EmptyTxnFailed")   \* ("abort": the caller itself gave up)
  \cup FlagIf(pending[h].op \in {"close", "clean"} /\ res \notin {"ok", "lock"}, "C16_GcFailed")

FsCrash(h) ==
  /\ crashed' = crashed \cup {h}
  /\ UNCHANGED <<pending, acked, failed>>

-----------------------------------------------------------------------------
(* Property predicates: evaluated in EVERY state, i.e. after every single   *)
(* filesystem call of every handle, and in every crash state.               *)

(* C05: every table named in tables.list exists, is a complete table of one *)
(* hash type, and the update-index ranges are strictly increasing.          *)
C05_ListIntegrity ==
  LET s == ListNames IN
  /\ \A k \in DOMAIN s : IsTableAt(s[k]) /\ Ino(s[k]).tab.min <= Ino(s[k]).tab.max
  /\ \A k \in DOMAIN s : (k > 1 /\ IsTableAt(s[k]) /\ IsTableAt(s[k-1]))
           => /\ Ino(s[k-1]).tab.max < Ino(s[k]).tab.min
              /\ Ino(s[k-1]).tab.hash = Ino(s[k]).tab.hash
C05_NoGc == viol \cap {"C05_NoGcOfListed", "C05_ListRemoved", "C05_ListedOverwritten"} = {}

(* C04: the marks accounted for by the listed tables are exactly those of   *)
(* the committed transactions, each exactly once                            *)
C04_NoLostNoPhantom ==
  /\ MarksOfNames(ListNames) = cmarks
  /\ Len(MarkSeqOfNames(ListNames)) = Cardinality(MarksOfNames(ListNames))
C04_AckIffCommitted == acked \subseteq Range(committed) /\ failed \cap Range(committed) = {}
C04_OneAtATime == viol \cap {"C04_LostAtCommit", "C04_ForeignCommit", "C04_PartialCommit"} = {}
C04_OnlyLockFailures == viol \cap {"C04_OtherFailure", "C04_EmptyTxnFailed"} = {}

(* C06 is C05 /\ C04 in every state reachable with crashes, plus: *)
C06_Atomic == viol \cap {"C06_ListTruncated"} = {}

(* C08 *)
C08_OwnerOnly == viol \cap {"C08_OwnerOnly", "C08_NoStolenCommit", "C08_WriteWithoutLock", "C08_CompactsUnlocked"} = {}

(* C09 (concurrent half): the commit rename is performed only by a handle   *)
(* whose last reading of tables.list is still the current list              *)
C09_StaleNeverCommits == viol \cap {"C09_StaleCommit", "C09_StaleRemovesListed"} = {}

(* C16 *)
Idle(h) == pending[h] = NoCall /\ h \notin crashed
OwnedResidue(h) == {p \in DOMAIN dir : Ino(p).creator = h /\ p # LIST /\ p \notin DOMAIN tabHist}
  \* (locks, staging files and temporaries; a table counts once it was renamed into place)
C16_IdleOwnsNothing == \A h \in DOMAIN pending : Idle(h) => OwnedResidue(h) = {}
C16_QuiescentDir ==
  ((\A h \in DOMAIN pending : Idle(h)) /\ crashed = {}) =>
     DOMAIN dir = Range(ListNames) \cup (IF Exists(LIST) THEN {LIST} ELSE {})
(* Close and Clean succeed on any stack (contention for the lock aside) *)
C16_GcSucceeds == viol \cap {"C16_GcFailed", "C16_GcRemovesLive"} = {}
=============================================================================
