/*
 * cdriver: binds the C implementation under /repo/c to the same specification
 * as the Go implementation.
 *
 *   cdriver write <in.txt> <out.ref>   write a table with reftable_writer_*
 *   cdriver read  <in.txt> <file.ref>  read a table: scan, seeks, refs_for
 *
 * in.txt is line based, fields separated by TAB, every string hex-encoded:
 *   opt     blocksize restart unpadded skipindex hash(sha1|s256) exact min max
 *   ref     name idx kind(d|v|p|s) a b
 *   log     name idx del old new user email time tz msg
 *   seekref name
 *   seeklog name idx
 *   refsfor oid
 * Output: one JSON object per line, strings hex-encoded.
 */
#include <stdio.h>
#include <stdlib.h>
#include <string.h>
#include <stdint.h>
#include <unistd.h>
#include <fcntl.h>

#include "reftable-blocksource.h"
#include "reftable-error.h"
#include "reftable-iterator.h"
#include "reftable-reader.h"
#include "reftable-record.h"
#include "reftable-writer.h"
#include "reftable-stack.h"
#include "reftable-merged.h"

#define MAXF 16

static int hash_size = 20;

static int hexval(int c)
{
	if (c >= '0' && c <= '9') return c - '0';
	if (c >= 'a' && c <= 'f') return c - 'a' + 10;
	return 0;
}

/* decodes hex into a malloced, NUL-terminated buffer; *len gets the byte length */
static char *unhex(const char *s, int *len)
{
	int n = strlen(s) / 2, i;
	char *b = calloc(n + 1, 1);
	for (i = 0; i < n; i++)
		b[i] = (char)(hexval(s[2 * i]) * 16 + hexval(s[2 * i + 1]));
	if (len) *len = n;
	return b;
}

static void puthex(const uint8_t *b, int n)
{
	int i;
	putchar('"');
	for (i = 0; b && i < n; i++) printf("%02x", b[i]);
	putchar('"');
}
static void putstrhex(const char *s)
{
	puthex((const uint8_t *)s, s ? (int)strlen(s) : 0);
}

static int split(char *line, char **f)
{
	int n = 0;
	char *p = line;
	f[n++] = p;
	while (*p && n < MAXF) {
		if (*p == '\t') { *p = 0; f[n++] = p + 1; }
		p++;
	}
	n--;
	while (n >= 0 && f[n][0]) { size_t l = strlen(f[n]); if (l && (f[n][l-1] == '\n' || f[n][l-1] == '\r')) f[n][l-1] = 0; else break; }
	return n + 1;
}

static ssize_t fd_write(void *arg, const void *data, size_t sz)
{
	return write(*(int *)arg, data, sz);
}

static void print_ref(struct reftable_ref_record *r)
{
	printf("[");
	putstrhex(r->refname);
	printf(",%llu,", (unsigned long long)r->update_index);
	switch (r->value_type) {
	case REFTABLE_REF_DELETION: printf("\"d\",\"\",\"\""); break;
	case REFTABLE_REF_VAL1: printf("\"v\","); puthex(r->value.val1, hash_size); printf(",\"\""); break;
	case REFTABLE_REF_VAL2: printf("\"p\","); puthex(r->value.val2.value, hash_size); printf(","); puthex(r->value.val2.target_value, hash_size); break;
	case REFTABLE_REF_SYMREF: printf("\"s\","); putstrhex(r->value.symref); printf(",\"\""); break;
	}
	printf("]");
}

static void print_log(struct reftable_log_record *l)
{
	printf("[");
	putstrhex(l->refname);
	printf(",%llu,", (unsigned long long)l->update_index);
	if (l->value_type == REFTABLE_LOG_DELETION) {
		printf("1,\"\",\"\",\"\",\"\",0,0,\"\"]");
		return;
	}
	printf("0,");
	puthex(l->value.update.old_hash, hash_size); printf(",");
	puthex(l->value.update.new_hash, hash_size); printf(",");
	putstrhex(l->value.update.name); printf(",");
	putstrhex(l->value.update.email);
	printf(",%llu,%d,", (unsigned long long)l->value.update.time, (int)l->value.update.tz_offset);
	putstrhex(l->value.update.message);
	printf("]");
}

static int scan_refs(struct reftable_iterator *it, int limit)
{
	struct reftable_ref_record ref = { 0 };
	int n = 0, err;
	printf("[");
	while ((err = reftable_iterator_next_ref(it, &ref)) == 0) {
		if (limit <= 0 || n < limit) { if (n) printf(","); print_ref(&ref); }
		n++;
		if (n > 300000) { err = -99; break; }
	}
	printf("]");
	reftable_ref_record_release(&ref);
	printf(",\"n\":%d", n);
	return err > 0 ? 0 : err;
}

static int scan_logs(struct reftable_iterator *it, int limit)
{
	struct reftable_log_record log = { 0 };
	int n = 0, err;
	printf("[");
	while ((err = reftable_iterator_next_log(it, &log)) == 0) {
		if (limit <= 0 || n < limit) { if (n) printf(","); print_log(&log); }
		n++;
		if (n > 300000) { err = -99; break; }
	}
	printf("]");
	reftable_log_record_release(&log);
	printf(",\"n\":%d", n);
	return err > 0 ? 0 : err;
}

/* ---- stack modes ---- */
struct txn {
	char **lines;
	int n;
	uint64_t idx;
};

static int write_txn(struct reftable_writer *w, void *arg)
{
	struct txn *t = arg;
	int i, err = 0;
	char *f[MAXF];
	reftable_writer_set_limits(w, t->idx, t->idx);
	for (i = 0; i < t->n && err == 0; i++) {
		char *line = strdup(t->lines[i]);
		int n = split(line, f);
		if (n < 1) continue;
		if (!strcmp(f[0], "ref")) {
			struct reftable_ref_record r = { 0 };
			char *a = unhex(f[4], NULL), *b = unhex(f[5], NULL);
			r.refname = unhex(f[1], NULL);
			r.update_index = t->idx;
			switch (f[3][0]) {
			case 'd': r.value_type = REFTABLE_REF_DELETION; break;
			case 'v': r.value_type = REFTABLE_REF_VAL1; r.value.val1 = (uint8_t *)a; break;
			case 'p': r.value_type = REFTABLE_REF_VAL2; r.value.val2.value = (uint8_t *)a; r.value.val2.target_value = (uint8_t *)b; break;
			case 's': r.value_type = REFTABLE_REF_SYMREF; r.value.symref = a; break;
			}
			err = reftable_writer_add_ref(w, &r);
		} else if (!strcmp(f[0], "log")) {
			struct reftable_log_record l = { 0 };
			uint64_t li = strtoull(f[2], NULL, 10);
			l.refname = unhex(f[1], NULL);
			l.update_index = li ? li : t->idx;
			if (atoi(f[3])) {
				l.value_type = REFTABLE_LOG_DELETION;
			} else {
				int ol = 0, nl = 0;
				l.value_type = REFTABLE_LOG_UPDATE;
				l.value.update.old_hash = (uint8_t *)unhex(f[4], &ol);
				l.value.update.new_hash = (uint8_t *)unhex(f[5], &nl);
				if (!ol) l.value.update.old_hash = NULL;
				if (!nl) l.value.update.new_hash = NULL;
				l.value.update.name = unhex(f[6], NULL);
				l.value.update.email = unhex(f[7], NULL);
				l.value.update.time = strtoull(f[8], NULL, 10);
				l.value.update.tz_offset = (int16_t)atoi(f[9]);
				l.value.update.message = unhex(f[10], NULL);
			}
			err = reftable_writer_add_log(w, &l);
		}
	}
	return err;
}

static int stack_main(int argc, char **argv)
{
	struct reftable_write_options opts = { 0 };
	struct reftable_stack *st = NULL;
	int err;
	/* cdriver stackread|stackwrite <in.txt> <dir>; first line of in.txt: opt ... */
	FILE *in = fopen(argv[2], "r");
	char *line = NULL;
	size_t cap = 0;
	char *f[MAXF];
	struct txn t = { 0 };
	int writing = !strcmp(argv[1], "stackwrite");
	if (!in) { perror("in"); return 2; }
	while (getline(&line, &cap, in) > 0) {
		char *copy = strdup(line);
		int n = split(line, f);
		if (n < 1) continue;
		if (!strcmp(f[0], "opt")) {
			opts.block_size = atoi(f[1]);
			opts.restart_interval = atoi(f[2]);
			opts.unpadded = atoi(f[3]);
			opts.skip_index_objects = atoi(f[4]);
			if (!strcmp(f[5], "s256")) { opts.hash_id = 0x73323536; hash_size = 32; }
			else opts.hash_id = 0x73686131;
			opts.exact_log_message = atoi(f[6]);
			err = reftable_new_stack(&st, argv[3], opts);
			if (err < 0) { printf("{\"op\":\"open\",\"err\":%d}\n", err); return 0; }
			printf("{\"op\":\"open\",\"err\":0}\n");
		} else if (!st) {
			continue;
		} else if (!strcmp(f[0], "txn") && writing) {
			t.n = 0;
		} else if ((!strcmp(f[0], "ref") || !strcmp(f[0], "log")) && writing) {
			t.lines = realloc(t.lines, sizeof(char *) * (t.n + 1));
			t.lines[t.n++] = copy;
		} else if (!strcmp(f[0], "commit") && writing) {
			t.idx = reftable_stack_next_update_index(st);
			err = reftable_stack_add(st, write_txn, &t);
			printf("{\"op\":\"add\",\"rc\":%d,\"idx\":%llu}\n", err, (unsigned long long)t.idx);
			t.n = 0;
		} else if (!strcmp(f[0], "compactall") && writing) {
			err = reftable_stack_compact_all(st, NULL);
			printf("{\"op\":\"compact\",\"rc\":%d}\n", err);
		}
	}
	if (st) {
		struct reftable_merged_table *mt = reftable_stack_merged_table(st);
		struct reftable_iterator it = { 0 };
		printf("{\"op\":\"view\",\"refs\":");
		err = reftable_merged_table_seek_ref(mt, &it, "");
		if (err == 0) err = scan_refs(&it, 0); else printf("[],\"n\":0");
		reftable_iterator_destroy(&it);
		printf(",\"referr\":%d,\"logs\":", err);
		memset(&it, 0, sizeof(it));
		err = reftable_merged_table_seek_log(mt, &it, "");
		if (err == 0) { printf("{\"l\":"); err = scan_logs(&it, 0); printf("}"); } else printf("{\"l\":[],\"n\":0}");
		reftable_iterator_destroy(&it);
		printf(",\"logerr\":%d}\n", err);
		reftable_stack_destroy(st);
	}
	return 0;
}

int main(int argc, char **argv)
{
	FILE *in;
	char *line = NULL;
	size_t cap = 0;
	char *f[MAXF];
	int writing;

	if (argc != 4) { fprintf(stderr, "usage: cdriver write|read|stackread|stackwrite in.txt file.ref|dir\n"); return 2; }
	if (!strncmp(argv[1], "stack", 5))
		return stack_main(argc, argv);
	writing = !strcmp(argv[1], "write");
	in = fopen(argv[2], "r");
	if (!in) { perror("in"); return 2; }

	if (writing) {
		struct reftable_write_options opts = { 0 };
		struct reftable_writer *w = NULL;
		int fd = open(argv[3], O_WRONLY | O_CREAT | O_TRUNC, 0644);
		int err, first = 1;
		if (fd < 0) { perror("out"); return 2; }
		printf("{\"op\":\"write\",\"calls\":[");
		while (getline(&line, &cap, in) > 0) {
			int n = split(line, f);
			if (n < 1) continue;
			if (!strcmp(f[0], "opt")) {
				opts.block_size = atoi(f[1]);
				opts.restart_interval = atoi(f[2]);
				opts.unpadded = atoi(f[3]);
				opts.skip_index_objects = atoi(f[4]);
				if (!strcmp(f[5], "s256")) { opts.hash_id = 0x73323536; hash_size = 32; }
				else opts.hash_id = 0x73686131;
				opts.exact_log_message = atoi(f[6]);
				w = reftable_new_writer(fd_write, &fd, &opts);
				reftable_writer_set_limits(w, strtoull(f[7], NULL, 10), strtoull(f[8], NULL, 10));
			} else if (!strcmp(f[0], "ref") && w) {
				struct reftable_ref_record r = { 0 };
				char *a = unhex(f[4], NULL), *b = unhex(f[5], NULL);
				r.refname = unhex(f[1], NULL);
				r.update_index = strtoull(f[2], NULL, 10);
				switch (f[3][0]) {
				case 'd': r.value_type = REFTABLE_REF_DELETION; break;
				case 'v': r.value_type = REFTABLE_REF_VAL1; r.value.val1 = (uint8_t *)a; break;
				case 'p': r.value_type = REFTABLE_REF_VAL2; r.value.val2.value = (uint8_t *)a; r.value.val2.target_value = (uint8_t *)b; break;
				case 's': r.value_type = REFTABLE_REF_SYMREF; r.value.symref = a; break;
				}
				err = reftable_writer_add_ref(w, &r);
				printf("%s%d", first ? "" : ",", err);
				first = 0;
			} else if (!strcmp(f[0], "log") && w) {
				struct reftable_log_record l = { 0 };
				l.refname = unhex(f[1], NULL);
				l.update_index = strtoull(f[2], NULL, 10);
				if (atoi(f[3])) {
					l.value_type = REFTABLE_LOG_DELETION;
				} else {
					int ol = 0, nl = 0;
					l.value_type = REFTABLE_LOG_UPDATE;
					l.value.update.old_hash = (uint8_t *)unhex(f[4], &ol);
					l.value.update.new_hash = (uint8_t *)unhex(f[5], &nl);
					if (!ol) l.value.update.old_hash = NULL;
					if (!nl) l.value.update.new_hash = NULL;
					l.value.update.name = unhex(f[6], NULL);
					l.value.update.email = unhex(f[7], NULL);
					l.value.update.time = strtoull(f[8], NULL, 10);
					l.value.update.tz_offset = (int16_t)atoi(f[9]);
					l.value.update.message = unhex(f[10], NULL);
				}
				err = reftable_writer_add_log(w, &l);
				printf("%s%d", first ? "" : ",", err);
				first = 0;
			}
		}
		err = w ? reftable_writer_close(w) : -100;
		printf("],\"close\":%d}\n", err);
		close(fd);
		return 0;
	}

	/* read */
	{
		struct reftable_block_source src = { 0 };
		struct reftable_reader *rd = NULL;
		int err = reftable_block_source_from_file(&src, argv[3]);
		if (err < 0) { printf("{\"op\":\"open\",\"err\":%d}\n", err); return 0; }
		err = reftable_new_reader(&rd, &src, "t");
		if (err < 0) { printf("{\"op\":\"open\",\"err\":%d}\n", err); return 0; }
		hash_size = reftable_reader_hash_id(rd) == 0x73323536 ? 32 : 20;
		{
			struct reftable_iterator it = { 0 };
			printf("{\"op\":\"scan\",\"min\":%llu,\"max\":%llu,\"refs\":", (unsigned long long)reftable_reader_min_update_index(rd),
			       (unsigned long long)reftable_reader_max_update_index(rd));
			err = reftable_reader_seek_ref(rd, &it, "");
			if (err == 0) err = scan_refs(&it, 0); else printf("[],\"n\":0");
			reftable_iterator_destroy(&it);
			printf(",\"referr\":%d,\"logs\":", err);
			memset(&it, 0, sizeof(it));
			err = reftable_reader_seek_log(rd, &it, "");
			if (err == 0) { printf("{\"l\":"); err = scan_logs(&it, 0); printf("}"); } else printf("{\"l\":[],\"n\":0}");
			reftable_iterator_destroy(&it);
			printf(",\"logerr\":%d}\n", err);
		}
		while (getline(&line, &cap, in) > 0) {
			int n = split(line, f);
			struct reftable_iterator it = { 0 };
			if (n < 2) continue;
			if (!strcmp(f[0], "seekref")) {
				char *name = unhex(f[1], NULL);
				printf("{\"op\":\"seekref\",\"name\":\"%s\",\"refs\":", f[1]);
				err = reftable_reader_seek_ref(rd, &it, name);
				if (err == 0) err = scan_refs(&it, 0); else printf("[],\"n\":0");
				printf(",\"err\":%d}\n", err);
			} else if (!strcmp(f[0], "seeklog")) {
				char *name = unhex(f[1], NULL);
				printf("{\"op\":\"seeklog\",\"name\":\"%s\",\"i\":%s,\"logs\":", f[1], f[2]);
				err = reftable_reader_seek_log_at(rd, &it, name, strtoull(f[2], NULL, 10));
				if (err == 0) err = scan_logs(&it, 0); else printf("[],\"n\":0");
				printf(",\"err\":%d}\n", err);
			} else if (!strcmp(f[0], "refsfor")) {
				uint8_t *oid = (uint8_t *)unhex(f[1], NULL);
				printf("{\"op\":\"refsfor\",\"oid\":\"%s\",\"refs\":", f[1]);
				err = reftable_reader_refs_for(rd, &it, oid);
				if (err == 0) err = scan_refs(&it, 0); else printf("[],\"n\":0");
				printf(",\"err\":%d}\n", err);
			} else {
				continue;
			}
			reftable_iterator_destroy(&it);
		}
		reftable_reader_free(rd);
	}
	return 0;
}
