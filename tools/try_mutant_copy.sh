#!/bin/bash
# usage: try_mutant_copy.sh <patch> <check-id>...  : like try_mutant.sh but on a scratch copy of /repo (VERIF_REPO), so that
# several can run side by side and /repo stays untouched.  Prints one line per check.
patch=$1; shift
d=$(mktemp -d /tmp/repo-mut-XXXXXX)
cp -r /repo/. $d/ && rm -rf $d/.git
( cd $d && git init -q . && git apply $patch ) || { echo "apply failed"; rm -rf $d; exit 3; }
cd /verif
for id in "$@"; do
  out=$(VERIF_REPO=$d ./check $id --tier quick 2>&1); rc=$?
  echo "CHECK $id rc=$rc $(echo "$out" | grep -c '^VIOLATION') violations: $(echo "$out" | grep -A1 '^VIOLATION' | grep -v '^VIOLATION\|^--' | head -4 | tr '\n' ';' | cut -c1-500)"
  [ $rc = 2 ] && echo "$out" | tail -4
done
rm -rf $d
