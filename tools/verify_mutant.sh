#!/bin/bash
# usage: verify_mutant.sh <dir with patch.diff demo_test.go meta.json>
# Confirms on a scratch worktree of /repo HEAD: patch applies, suite passes with it, demo fails with it, demo passes without.
set -u
d=$1
export GOFLAGS=-mod=mod GOPROXY=off GOSUMDB=off GOTOOLCHAIN=local
wt=/tmp/wt/verify-$$
git -C /repo worktree add --detach $wt HEAD >/dev/null 2>&1 || { echo "worktree failed"; exit 2; }
trap "git -C /repo worktree remove --force $wt >/dev/null 2>&1" EXIT
cd $wt
if ! git apply --3way $d/patch.diff >/dev/null 2>&1 && ! git apply $d/patch.diff >/dev/null 2>&1; then echo "RESULT apply=FAIL"; exit 3; fi
git diff HEAD > /tmp/rebased-$$.diff
suite=$(go test -vet=off -count=1 ./... 2>&1 | tail -3 | grep -c "^ok")
cp $d/demo_test.go ./zz_demo_test.go 2>/dev/null
name=$(grep -o 'func Test[A-Za-z0-9_]*' zz_demo_test.go | head -1 | sed 's/func //')
race=""; grep -q '\-race' $d/meta.json && race="-race"
with=$(go test -vet=off -count=1 $race -run "$name" . 2>&1 | tail -1 | grep -c "^ok")
git reset -q --hard HEAD
without=$(go test -vet=off -count=1 $race -run "$name" . 2>&1 | tail -1 | grep -c "^ok")
echo "RESULT apply=ok suite_passes_with=$suite demo_passes_with=$with demo_passes_without=$without test=$name"
cp /tmp/rebased-$$.diff $d/patch.rebased.diff; rm -f /tmp/rebased-$$.diff
