----------------------------- MODULE TraceTable -----------------------------
(***************************************************************************)
(* Validation of single tables written and read by the real code against   *)
(* the table semantics (Store.tla operators on one table) and the format   *)
(* (Layout.tla).  One trace = one table: a "write" event (every writer     *)
(* call with its outcome), a "scan", the seeks / RefsFor queries, and the  *)
(* "layout" the independent decoder found in the bytes.                    *)
(***************************************************************************)
EXTENDS Store, Json

CONSTANTS TraceFile, Debug
Traces == JsonDeserialize(TraceFile)
L == INSTANCE Layout

VARIABLES tr, l, wrefs, wlogs, lim, fails
vars == <<tr, l, wrefs, wlogs, lim, fails>>
Ev == Traces[tr].events
E == Ev[l]

TInit == tr \in 1..Len(Traces) /\ l = 1 /\ wrefs = <<>> /\ wlogs = <<>> /\ lim = <<0, 0>> /\ fails = {}
Is(op) == l <= Len(Ev) /\ E.op = op
Step == l' = l + 1 /\ UNCHANGED tr
Fail(c, name) == IF c THEN {} ELSE {name}
Cmp(got, exp, name) == IF got = exp THEN {} ELSE IF Debug /\ PrintT(<<"MISMATCH", name, "got", got, "expected", exp>>) THEN {name} ELSE {name}

(* a seek result is recorded as its first 12 records, its length and its last record *)
SeekCap == 12
Capped(s) == IF Len(s) > SeekCap THEN SubSeq(s, 1, SeekCap) ELSE s
LastOf(s) == IF s = <<>> THEN <<>> ELSE <<s[Len(s)]>>

(* the writer accepts a ref iff it has a name and its update index is within the limits; *)
(* a log iff it has a name and (exact messages, or a single-line message)                *)
(* ... and a record that is larger than a whole block is refused                             *)
Accept(c, exact) == ~c.oversize /\ (IF c.kind = "ref" THEN ~c.emptyname /\ c.inrange ELSE ~c.emptyname /\ (exact \/ c.single))

TWrite ==
  /\ Is("write")
  /\ LET acc == SelectSeq(E.calls, LAMBDA c : Accept(c, E.exact))
         refs == [i \in DOMAIN SelectSeq(acc, LAMBDA c : c.kind = "ref") |-> SelectSeq(acc, LAMBDA c : c.kind = "ref")[i].rec]
         logs == [i \in DOMAIN SelectSeq(acc, LAMBDA c : c.kind = "log") |-> SelectSeq(acc, LAMBDA c : c.kind = "log")[i].rec]
     IN
     /\ wrefs' = refs /\ wlogs' = logs /\ lim' = <<E.min, E.max>>
     /\ fails' = Fail(\A i \in DOMAIN E.calls : E.calls[i].ok = Accept(E.calls[i], E.exact), "C01_AcceptReject")
            \cup (IF E.big THEN Fail(E.close = "ok", "C01_Close") ELSE Cmp(E.close, IF refs = <<>> /\ logs = <<>> THEN "empty" ELSE "ok", "C01_Close"))
  /\ Step

TScan ==
  /\ Is("scan")
  /\ fails' = Fail(E.err = "", "C01_ScanFails") \cup Cmp(E.refs, wrefs, "C01_RefsReadBack") \cup Cmp(E.logs, wlogs, "C01_LogsReadBack")
             \cup Cmp(<<E.min, E.max>>, lim, "C01_Limits") \cup Cmp(E.reuse, "", "C01_StableResults")
  /\ UNCHANGED <<wrefs, wlogs, lim>> /\ Step

TSeekRef ==
  /\ Is("seekref")
  /\ LET exp == SeekRefIn(wrefs, E.k)
         hit == IF exp # <<>> /\ exp[1][1] = E.k THEN <<exp[1]>> ELSE <<>> IN
     fails' = Fail(E.err = "", "C02_SeekFails") \cup Cmp(E.refs, Capped(exp), "C02_SeekRef") \cup Cmp(E.read, hit, "C02_ReadRef")
                \cup Cmp(<<E.n, E.last>>, <<Len(exp), LastOf(exp)>>, "C02_SeekRef")
  /\ UNCHANGED <<wrefs, wlogs, lim>> /\ Step

TSeekLog ==
  /\ Is("seeklog")
  /\ LET exp == SeekLogIn(wlogs, E.k, E.i)
         hit == IF exp # <<>> /\ exp[1][1] = E.k THEN <<exp[1]>> ELSE <<>> IN
     fails' = Fail(E.err = "", "C02_SeekFails") \cup Cmp(E.logs, Capped(exp), "C02_SeekLog") \cup Cmp(E.read, hit, "C02_ReadLogAt")
                \cup Cmp(<<E.n, E.last>>, <<Len(exp), LastOf(exp)>>, "C02_SeekLog")
  /\ UNCHANGED <<wrefs, wlogs, lim>> /\ Step

TRefsFor ==
  /\ Is("refsfor")
  /\ fails' = Fail(E.err = "", "C11_RefsForFails") \cup Cmp(E.refs, SelectSeq(wrefs, LAMBDA r : PointsAt(r, E.oid)), "C11_TableRefsFor")
  /\ UNCHANGED <<wrefs, wlogs, lim>> /\ Step

TLayout ==
  /\ Is("layout")
  /\ fails' = Fail(L!LF_ByteLevel(E), "C14_ByteLevel") \cup Fail(L!LF_Contiguous(E), "C14_Contiguous") \cup Fail(L!LF_Types(E), "C14_Types")
        \cup Fail(L!LF_Restarts(E), "C14_Restarts") \cup Fail(L!LF_Keys(E), "C14_Keys") \cup Fail(L!LF_Index(E), "C14_Index")
        \cup Fail(L!LF_Footer(E), "C14_Footer") \cup Fail(L!LF_ObjIndex(E), "C14_ObjIndex") \cup Fail(L!LF_UpdateIdx(E), "C14_UpdateIdx")
        \cup Cmp(L!AllRefs(E), wrefs, "C14_DecodeRefs") \cup Cmp(L!AllLogs(E), wlogs, "C14_DecodeLogs")
        \cup Cmp(<<E.min, E.max>>, lim, "C14_HeaderLimits")
  /\ UNCHANGED <<wrefs, wlogs, lim>> /\ Step

(* a table too large for TLC to hold (e.g. 66000 records in one block): the driver compared the scan *)
(* with the written records and the decoder checked the bytes; only the verdicts arrive here         *)
TBig ==
  /\ Is("big")
  /\ fails' = Fail(E.err = "", "C01_ScanFails") \cup Fail(E.refsequal /\ E.nrefs = E.wrefs, "C01_RefsReadBack")
            \cup Fail(E.logsequal /\ E.nlogs = E.wlogs, "C01_LogsReadBack") \cup Cmp(E.reuse, "", "C01_StableResults")
            \cup Cmp(E.problems, <<>>, "C14_ByteLevel")
  /\ UNCHANGED <<wrefs, wlogs, lim>> /\ Step

TDone == l > Len(Ev) /\ UNCHANGED vars
TSpec == TInit /\ [][TWrite \/ TBig \/ TScan \/ TSeekRef \/ TSeekLog \/ TRefsFor \/ TLayout \/ TDone]_vars
T_All == fails = {} \/ (PrintT(<<"VIOL", fails, Traces[tr].id, l - 1>>) /\ FALSE)
=============================================================================
