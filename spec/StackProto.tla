----------------------------- MODULE StackProto -----------------------------
(***************************************************************************)
(* Implementation level of the stack protocol: stack.go transcribed step   *)
(* by step.  EVERY action below except Ret and Crash is exactly one        *)
(* filesystem call (or the start of an API call) of the code, named after  *)
(* the place in the code; whatever the code computes between two           *)
(* filesystem calls is folded into the preceding action.  The filesystem   *)
(* effects and the property predicates come from StackFS.                  *)
(*                                                                         *)
(*  NewStack/reload   R_Read R_Open R_Reread R_Gc                stack.go reload/reloadOnce *)
(*  Add/Addition      A_Lock A_UpToDate A_UnlockStale A_Temp A_Check A_CheckNew                       *)
(*                    A_RenameTab A_RmTmp A_Write A_Commit A_CloseRm A_CloseUnlock            *)
(*  compactRange      K_Lock K_UpToDate K_SubLock K_Unlock K_Temp K_Relock K_Rebase           *)
(*                    K_RenameTab K_Write K_Commit K_Delete K_ClTmp K_ClSub K_ClLock          *)
(*  Close             C_Read C_Gc                                                            *)
(*  Clean             L_Lock L_UpToDate L_UnlockStale (reload) L_ReadDir L_Open L_Remove L_Unlock *)
(*                                                                         *)
(* The five Fix... constants are "bug knobs": FALSE reproduces a defect of *)
(* the pinned tree (each was exhibited on the real code and repaired, see  *)
(* KNOWN_FINDINGS.txt); they exist so that the self-tests can show that    *)
(* every invariant is able to fail.                                        *)
(***************************************************************************)
EXTENDS StackFS

CONSTANTS
  Handles,         \* e.g. {1, 2}
  MaxOps,          \* API calls per handle
  MaxIds,          \* bound on table / temp ids
  InitN,           \* tables in the initial stack
  OpKinds,         \* subset of {"add","autoadd","refused","addition","abort","empty","compactall","compactrange","autocompact","reload","reopen","open","close","read","clean"}
  ReaderHandles,   \* handles restricted to ReaderOps (e.g. a reading/reloading handle racing writers)
  ReaderOps,
  ReaderMaxOps,    \* API calls of a reader handle
  CrashOn,         \* BOOLEAN: handles may be killed at any step
  FixRelockOwner,  \* TRUE: a compaction that loses the re-lock race does not believe it owns the lock (D5)
  FixRebase,       \* TRUE: after re-taking the lock the compaction re-reads tables.list and rebases (D6)
  FixTmpCleanup,   \* TRUE: the merged temporary is removed on every early exit (D7)
  FixReuseClose,   \* TRUE: a failed reload attempt closes only the readers it opened itself (D8)
  FixCleanEnoent   \* TRUE: Clean skips an unlisted table that vanished between ReadDir and Open (D15)

VARIABLES
  pc,        \* [handle -> label]
  loc,       \* [handle -> call-local variables]
  stack,     \* [handle -> Seq of table names]   the in-memory stack (st.stack)
  closedRd,  \* [handle -> set of names in its stack whose reader was closed]
  opsLeft, nextId, nextTxn,
  act        \* the action just taken: [h, a, op, pk, res]  (history; hidden by the VIEW)

ownvars == <<pc, loc, stack, closedRd, opsLeft, nextId, nextTxn>>
vars == <<fsvars, ownvars, act>>
view == <<fsvars, ownvars>>

TN(k) == "t" \o ToString(k)
TL(n) == n \o ".lock"
TM(k) == "tmp" \o ToString(k)

L0 == [op |-> "none", txn |-> 0, names |-> <<>>, fd |-> 0, holdLock |-> FALSE,
       first |-> 0, last |-> 0, i |-> 0, subq |-> <<>>, tmp |-> "", tid |-> 0, parts |-> 0,
       newTabs |-> {}, want |-> <<>>, toOpen |-> <<>>, reused |-> {}, gc |-> {}, gcq |-> <<>>,
       after |-> "ret", reuse |-> TRUE, res |-> "ok", rres |-> "ok",
       auto |-> FALSE,      \* the call goes through Stack.Add with automatic compaction enabled
       refuse |-> "no"]     \* "no": every table passes checkAddition; "last": the last table of the transaction is refused; "any": either (trace validation)

InitNames == [k \in 1..InitN |-> TN(k)]
InitTab(k) == [min |-> k, max |-> k, txns |-> <<k * 10>>, hash |-> "h", refs |-> <<>>]

Init ==
  /\ ino = [k \in 1..(InitN + (IF InitN > 0 THEN 1 ELSE 0)) |->
              IF k <= InitN THEN [creator |-> 0, kind |-> KTmp, names |-> <<>>, tab |-> InitTab(k)]
                            ELSE [creator |-> 0, kind |-> KFile, names |-> InitNames, tab |-> NoTab]]
  /\ dir = [p \in {TN(k) : k \in 1..InitN} \cup (IF InitN > 0 THEN {LIST} ELSE {}) |->
              IF p = LIST THEN InitN + 1 ELSE CHOOSE k \in 1..InitN : TN(k) = p]
  /\ lver = {<<>>, InitNames}
  /\ committed = [k \in 1..InitN |-> k] /\ cmarks = {k * 10 : k \in 1..InitN}
  /\ lastRead = [h \in Handles |-> InitNames]
  /\ tabHist = [p \in {TN(k) : k \in 1..InitN} |-> InitTab(CHOOSE k \in 1..InitN : TN(k) = p)]
  /\ viol = {}
  /\ pending = [h \in Handles |-> NoCall] /\ acked = {} /\ failed = {} /\ crashed = {}
  /\ pc = [h \in Handles |-> "idle"] /\ loc = [h \in Handles |-> L0]
  /\ stack = [h \in Handles |-> InitNames] /\ closedRd = [h \in Handles |-> {}]
  /\ opsLeft = [h \in Handles |-> IF h \in ReaderHandles THEN ReaderMaxOps ELSE MaxOps] /\ nextId = InitN + 1 /\ nextTxn = InitN + 1
  /\ act = [n |-> 0, h |-> 0, a |-> "Init", op |-> "", pk |-> "", res |-> "", arg |-> <<>>, path |-> ""]

-----------------------------------------------------------------------------
(* helpers *)
(* the history variable is frozen in liveness configurations (Record <- NoRecord): TLC's liveness checking does not go with a VIEW *)
Record == TRUE
NoRecord == FALSE
ActP(h, a, op, pk, res, path) == act' = IF Record THEN [n |-> act.n + 1, h |-> h, a |-> a, op |-> op, pk |-> pk, res |-> res, arg |-> <<>>, path |-> path] ELSE act
ActArg(h, a, op, arg) == act' = IF Record THEN [n |-> act.n + 1, h |-> h, a |-> a, op |-> op, pk |-> "", res |-> "", arg |-> arg, path |-> ""] ELSE act
Internal(h, a) == ActP(h, a, "internal", "", "", "")
Go(h, p, l) == pc' = [pc EXCEPT ![h] = p] /\ loc' = [loc EXCEPT ![h] = l]
KeepMem == UNCHANGED <<stack, closedRd>>
KeepCtr == UNCHANGED <<opsLeft, nextId, nextTxn>>
MaxOf(n) == tabHist[n].max
MinOf(n) == tabHist[n].min
NextIdx(h) == IF stack[h] = <<>> THEN 1 ELSE MaxOf(Last(stack[h])) + 1
SetOf(s) == Range(s)

(* ids still needed by calls in progress must remain available *)
Room == nextId <= MaxIds

(* ---- entering the reload sub-procedure: the next filesystem call is ReadFile(tables.list) *)
ToReload(l, after, reuse) == [l EXCEPT !.after = after, !.reuse = reuse]

(* what reloadOnce has to open for the list `w`: everything it cannot reuse *)
NeedOpen(h, w, reuse) == SelectSeq(w, LAMBDA n : ~(reuse /\ n \in SetOf(stack[h])))

(* successful end of reloadOnce: swap, then remove what the old stack held and the new one does not *)
SwapGc(h, w, reuse) == IF reuse THEN SetOf(stack[h]) \ SetOf(w) ELSE SetOf(stack[h])

-----------------------------------------------------------------------------
(* API call starts (the scheduler's "call" gate) *)
Start(h, op, l, firstpc, c) ==
  /\ pc[h] = (IF op = "open" THEN "closed" ELSE "idle") /\ opsLeft[h] > 0 /\ op \in (IF h \in ReaderHandles THEN ReaderOps ELSE OpKinds)
  /\ opsLeft' = [opsLeft EXCEPT ![h] = @ - 1]
  /\ Go(h, firstpc, l)
  /\ FsCall(h, c) /\ FsNop /\ KeepMem
  /\ ActArg(h, "Start_" \o op, "call", <<op, l.txn, l.parts, l.first, l.last>>)

(* op: "add" (Stack.Add), "autoadd" (Stack.Add with automatic compaction), "refused" (Stack.Add of a table that checkAddition   *)
(* refuses), "empty" (Stack.Add that writes nothing), "addition" / "abort" (NewAddition + Addition.Add* + Commit / Close).      *)
(* txn is a parameter so that trace validation can start the transaction the trace names.                                      *)
StartAddT(h, parts, op, txn, auto, refuse) ==
  /\ Room
  /\ LET marks == IF op = "empty" THEN {} ELSE {txn * 10 + k : k \in 0..(parts - 1)} IN
     Start(h, op, [L0 EXCEPT !.op = op, !.txn = txn, !.parts = parts, !.auto = auto, !.refuse = refuse], "a_lock",
           [op |-> op, txn |-> txn, marks |-> marks, norecs |-> (op = "empty")])
  /\ UNCHANGED nextId

StartAdd(h, parts, op) ==
  /\ StartAddT(h, parts, op, nextTxn, op = "autoadd", IF op = "refused" THEN "last" ELSE "no")
  /\ nextTxn' = nextTxn + 1

StartCompact(h, f, l, op) ==
  /\ Room
  /\ 1 <= f /\ f < l /\ l <= Len(stack[h])
  /\ op = "compactrange" /\ ~(f = 1 /\ l = Len(stack[h]))
  /\ Start(h, op, [L0 EXCEPT !.op = op, !.first = f, !.last = l], "k_lock", [op |-> op, txn |-> 0, marks |-> {}, norecs |-> FALSE])
  /\ UNCHANGED <<nextId, nextTxn>>

StartCompactAll(h) ==     \* CompactAll = compactRange(0, len - 1); spelled out (not via StartCompact) so that TLC labels the transition with h
  /\ Room /\ Len(stack[h]) >= 2
  /\ Start(h, "compactall", [L0 EXCEPT !.op = "compactall", !.first = 1, !.last = Len(stack[h])], "k_lock", [op |-> "compactall", txn |-> 0, marks |-> {}, norecs |-> FALSE])
  /\ UNCHANGED <<nextId, nextTxn>>

StartOther(h, op, firstpc, l) ==
  /\ Start(h, op, l, firstpc, [op |-> op, txn |-> 0, marks |-> {}, norecs |-> FALSE])
  /\ UNCHANGED <<nextId, nextTxn>>

(* a call that makes no filesystem call at all: a read through the merged view; CompactAll on a stack of fewer than two     *)
(* tables; compactRange with first >= last                                                                                  *)
StartNoop(h, op) == StartOther(h, op, "ret", [L0 EXCEPT !.op = op])

(* NewStack by a process that holds no handle: an empty in-memory stack, then reload *)
StartOpenFrom(h, pcs) ==
  /\ pc[h] \in pcs /\ opsLeft[h] > 0 /\ "open" \in (IF h \in ReaderHandles THEN ReaderOps ELSE OpKinds)
  /\ opsLeft' = [opsLeft EXCEPT ![h] = @ - 1]
  /\ Go(h, "r_read", ToReload([L0 EXCEPT !.op = "open"], "ret", TRUE))
  /\ stack' = [stack EXCEPT ![h] = <<>>] /\ closedRd' = [closedRd EXCEPT ![h] = {}]
  /\ FsCall(h, [op |-> "open", txn |-> 0, marks |-> {}, norecs |-> FALSE]) /\ FsNop
  /\ ActArg(h, "Start_open", "call", <<"open", 0, 0, 0, 0>>)
  /\ UNCHANGED <<nextId, nextTxn>>

StartOpen(h) == StartOpenFrom(h, {"closed"})

(* compactRange(f, l) without the exhaustive model's distinction between CompactAll and a proper sub-range *)
StartCompactT(h, f, l) ==
  /\ Room /\ 1 <= f /\ f < l /\ l <= Len(stack[h])
  /\ Start(h, "compactrange", [L0 EXCEPT !.op = "compactrange", !.first = f, !.last = l], "k_lock", [op |-> "compactrange", txn |-> 0, marks |-> {}, norecs |-> FALSE])
  /\ UNCHANGED <<nextId, nextTxn>>

(* AutoCompact: tableSizesForCompaction + suggestCompactionSegment choose a range of at least two tables or nothing.  The   *)
(* sizes are not modelled: the model allows ANY such range (an over-approximation that trace validation resolves).          *)
AutoRanges(h) == {<<f, l>> \in (1..Len(stack[h])) \X (1..Len(stack[h])) : f < l}
ToAuto(h, l, r) == Go(h, "k_lock", [l EXCEPT !.first = r[1], !.last = r[2], !.res = "ok"])
StartAutoCompact(h) ==
  /\ Room
  /\ \/ StartNoop(h, "autocompact")
     \/ \E r \in AutoRanges(h) :
          /\ Start(h, "autocompact", [L0 EXCEPT !.op = "autocompact", !.first = r[1], !.last = r[2]], "k_lock", [op |-> "autocompact", txn |-> 0, marks |-> {}, norecs |-> FALSE])
          /\ UNCHANGED <<nextId, nextTxn>>

Calls(h) ==
  \/ StartAdd(h, 1, "add")
  \/ StartAdd(h, 2, "addition")
  \/ StartAdd(h, 2, "abort")       \* NewAddition, two tr.Add, then tr.Close() without Commit: an abandoned transaction
  \/ StartAdd(h, 1, "empty")
  \/ StartAdd(h, 1, "autoadd")     \* Stack.Add followed by AutoCompact: the range is chosen by a size heuristic; here: any range, or none
  \/ StartAdd(h, 1, "refused")     \* Stack.Add whose table the name check refuses
  \/ StartAutoCompact(h)
  \/ StartNoop(h, "read")
  \/ StartCompactAll(h)
  \* every range f < l <= 7, spelled out so that TLC labels each transition with its range (used by the transition cover)
  \/ StartCompact(h, 1, 2, "compactrange")
  \/ StartCompact(h, 1, 3, "compactrange")
  \/ StartCompact(h, 1, 4, "compactrange")
  \/ StartCompact(h, 1, 5, "compactrange")
  \/ StartCompact(h, 1, 6, "compactrange")
  \/ StartCompact(h, 1, 7, "compactrange")
  \/ StartCompact(h, 2, 3, "compactrange")
  \/ StartCompact(h, 2, 4, "compactrange")
  \/ StartCompact(h, 2, 5, "compactrange")
  \/ StartCompact(h, 2, 6, "compactrange")
  \/ StartCompact(h, 2, 7, "compactrange")
  \/ StartCompact(h, 3, 4, "compactrange")
  \/ StartCompact(h, 3, 5, "compactrange")
  \/ StartCompact(h, 3, 6, "compactrange")
  \/ StartCompact(h, 3, 7, "compactrange")
  \/ StartCompact(h, 4, 5, "compactrange")
  \/ StartCompact(h, 4, 6, "compactrange")
  \/ StartCompact(h, 4, 7, "compactrange")
  \/ StartCompact(h, 5, 6, "compactrange")
  \/ StartCompact(h, 5, 7, "compactrange")
  \/ StartCompact(h, 6, 7, "compactrange")
  \/ StartOther(h, "reload", "r_read", ToReload([L0 EXCEPT !.op = "reload"], "ret", TRUE))
  \/ StartOther(h, "reopen", "c_read", [L0 EXCEPT !.op = "reopen"])
  \/ StartOther(h, "clean", "l_lock", [L0 EXCEPT !.op = "clean"])
  \/ StartOther(h, "close", "c_read", [L0 EXCEPT !.op = "close"])
  \/ StartOpen(h)

-----------------------------------------------------------------------------
(* reload(reuseOpen):  ReadFile(list) -> Open(each table it cannot reuse) ->  *)
(* [ENOENT: ReadFile(list) again; same => fail, different => start over] ->   *)
(* swap -> Remove(each table the old stack held and the new one does not)     *)

(* after the list was read (or re-read at the top of the loop): either there  *)
(* is something to open, or the swap happens at once                          *)
AfterRead(h, l, w) ==
  LET need == NeedOpen(h, w, l.reuse) IN
  IF need # <<>>
  THEN /\ Go(h, "r_open", [l EXCEPT !.want = w, !.toOpen = need, !.reused = SetOf(w) \ SetOf(need)])
       /\ KeepMem
  ELSE LET gc == SwapGc(h, w, l.reuse) IN
       /\ stack' = [stack EXCEPT ![h] = w]
       /\ closedRd' = [closedRd EXCEPT ![h] = @ \cap SetOf(w)]
       /\ IF gc # {} THEN Go(h, "r_gc", [l EXCEPT !.want = w, !.gc = gc, !.rres = "ok"])
                     ELSE Go(h, l.after, [l EXCEPT !.want = w, !.rres = "ok"])

R_Read(h) ==
  /\ pc[h] = "r_read"
  /\ FsReadList(h) /\ ApiUnch /\ KeepCtr
  /\ AfterRead(h, loc[h], ListNames)
  /\ ActP(h, "R_Read", "readfile", PKList, ExistRes(LIST), LIST)

R_Open(h) ==
  /\ pc[h] = "r_open"
  /\ LET l == loc[h]  n == Head(l.toOpen) IN
     /\ IF Exists(n)
        THEN IF Tail(l.toOpen) # <<>>
             THEN Go(h, "r_open", [l EXCEPT !.toOpen = Tail(@)]) /\ KeepMem
             ELSE LET gc == SwapGc(h, l.want, l.reuse) IN
                  /\ stack' = [stack EXCEPT ![h] = l.want]
                  /\ closedRd' = [closedRd EXCEPT ![h] = @ \cap SetOf(l.want)]
                  /\ IF gc # {} THEN Go(h, "r_gc", [l EXCEPT !.toOpen = <<>>, !.gc = gc, !.rres = "ok"])
                                ELSE Go(h, l.after, [l EXCEPT !.toOpen = <<>>, !.rres = "ok"])
        ELSE \* ENOENT: the deferred close of newTables runs.  Pinned code: that list also holds the
             \* REUSED readers placed in it before the failing name, which stay in st.stack (D8).
             /\ closedRd' = [closedRd EXCEPT ![h] =
                   IF FixReuseClose THEN @
                   ELSE @ \cup {l.want[j] : j \in {j \in DOMAIN l.want : l.want[j] \in l.reused /\
                                                     \E k \in DOMAIN l.want : k > j /\ l.want[k] = n}}]
             /\ UNCHANGED stack
             /\ Go(h, "r_reread", l)
     /\ ActP(h, "R_Open", "open", PKTab, ExistRes(n), n)
  /\ FsNop /\ ApiUnch /\ KeepCtr

R_Reread(h) ==
  /\ pc[h] = "r_reread"
  /\ FsReadList(h) /\ ApiUnch /\ KeepCtr /\ KeepMem
  /\ IF ListNames = loc[h].want
     THEN Go(h, loc[h].after, [loc[h] EXCEPT !.rres = "fail"])     \* os.ErrNotExist
     ELSE Go(h, "r_read", loc[h])                                  \* the list changed: start over
  /\ ActP(h, "R_Reread", "readfile", PKList, ExistRes(LIST), LIST)

R_Gc(h) ==
  /\ pc[h] = "r_gc"
  /\ \E n \in loc[h].gc :
       /\ IF Exists(n) THEN FsRemove(h, n, PKTab) ELSE FsNop
       /\ LET l == [loc[h] EXCEPT !.gc = @ \ {n}] IN
          IF l.gc = {} THEN Go(h, l.after, l) ELSE Go(h, "r_gc", l)
       /\ ActP(h, "R_Gc", "remove", PKTab, ExistRes(n), n)
  /\ ApiUnch /\ KeepCtr /\ KeepMem

-----------------------------------------------------------------------------
(* Add / NewAddition + Addition.Add* + Commit + Close *)
A_Lock(h) ==
  /\ pc[h] = "a_lock"
  /\ IF ~Exists(LOCK)
     THEN /\ FsCreate(h, LOCK, KFile)
          /\ Go(h, "a_uptodate", [loc[h] EXCEPT !.fd = Len(ino) + 1, !.holdLock = TRUE])
     ELSE /\ FsNop      \* ErrLockFailure; Stack.Add reloads, a bare NewAddition does not
          /\ IF loc[h].op \in {"addition", "abort"} THEN Go(h, "ret", [loc[h] EXCEPT !.res = "lock"])
             ELSE Go(h, "r_read", ToReload([loc[h] EXCEPT !.res = "lock"], "ret", TRUE))
  /\ ApiUnch /\ KeepCtr /\ KeepMem
  /\ ActP(h, "A_Lock", "createexcl", PKLock, CreateExclRes(LOCK), LOCK)

A_UpToDate(h) ==
  /\ pc[h] = "a_uptodate"
  /\ FsReadList(h)
  /\ IF ListNames = stack[h]
     THEN Go(h, "a_temp", [loc[h] EXCEPT !.names = stack[h], !.i = 0])
     ELSE Go(h, "a_unlock_stale", loc[h])
  /\ ApiUnch /\ KeepCtr /\ KeepMem
  /\ ActP(h, "A_UpToDate", "readfile", PKList, ExistRes(LIST), LIST)

A_UnlockStale(h) ==     \* tr.Close(): os.Remove(lock); then ErrLockFailure, Add reloads
  /\ pc[h] = "a_unlock_stale"
  /\ IF Exists(LOCK) THEN FsRemove(h, LOCK, PKLock) ELSE FsNop
  /\ IF loc[h].op \in {"addition", "abort"} THEN Go(h, "ret", [loc[h] EXCEPT !.res = "lock", !.holdLock = FALSE])
     ELSE Go(h, "r_read", ToReload([loc[h] EXCEPT !.res = "lock", !.holdLock = FALSE], "ret", TRUE))
  /\ ApiUnch /\ KeepCtr /\ KeepMem
  /\ ActP(h, "A_UnlockStale", "remove", PKLock, ExistRes(LOCK), LOCK)

(* TempFile; the table is then written and closed (private, not a filesystem step of interest) *)
A_Temp(h) ==
  /\ pc[h] = "a_temp"
  /\ LET l == loc[h]  id == nextId  idx == NextIdx(h) + l.i
         t == [min |-> idx, max |-> idx, txns |-> <<l.txn * 10 + l.i>>, hash |-> "h", refs |-> <<>>] IN
     /\ ino' = Append(ino, [creator |-> h, kind |-> KTmp, names |-> <<>>, tab |-> IF l.op = "empty" THEN NoTab ELSE t])
     /\ dir' = DirPut(TM(id), Len(ino) + 1)
     /\ UNCHANGED <<lver, committed, cmarks, lastRead, tabHist, viol>>
     /\ nextId' = nextId + 1 /\ UNCHANGED <<opsLeft, nextTxn>>
     /\ IF l.op = "empty"
        THEN Go(h, "a_rm_tmp", [l EXCEPT !.tmp = TM(id), !.tid = id])    \* ErrEmptyTable: nothing to add
        ELSE Go(h, "a_check", [l EXCEPT !.tmp = TM(id), !.tid = id])
  /\ ApiUnch /\ KeepMem
  /\ ActP(h, "A_Temp", "tempfile", PKTmp, "ok", TM(nextId))

(* does checkAddition refuse the table now being added?  (decided by the content, which is not modelled) *)
Refusals(l) == CASE l.refuse = "no" -> {FALSE}
                 [] l.refuse = "last" -> {l.i + 1 = l.parts}
                 [] OTHER -> BOOLEAN

A_Check(h) ==           \* checkAddition reads the temporary back ...
  /\ pc[h] = "a_check"
  /\ FsNop /\ ApiUnch /\ KeepCtr /\ KeepMem
  /\ LET q == SelectSeq(loc[h].names, LAMBDA n : n \in loc[h].newTabs) IN
     IF q # <<>> THEN Go(h, "a_check_new", [loc[h] EXCEPT !.gcq = q])
     ELSE \E rej \in Refusals(loc[h]) :
            IF rej THEN Go(h, "a_rm_tmp", [loc[h] EXCEPT !.res = "rejected"])     \* tr.Add returns the error: deferred Remove(temporary), then tr.Close()
                   ELSE Go(h, "a_rename_tab", loc[h])
  /\ ActP(h, "A_Check", "open", PKTmp, ExistRes(loc[h].tmp), loc[h].tmp)

A_CheckNew(h) ==        \* ... and opens the tables added earlier in the same transaction (validated against each other)
  /\ pc[h] = "a_check_new"
  /\ FsNop /\ ApiUnch /\ KeepCtr /\ KeepMem
  /\ LET l == loc[h]  n == Head(l.gcq) IN
     /\ IF Tail(l.gcq) # <<>> THEN Go(h, "a_check_new", [l EXCEPT !.gcq = Tail(@)])
        ELSE \E rej \in Refusals(l) :
               IF rej THEN Go(h, "a_rm_tmp", [l EXCEPT !.gcq = <<>>, !.res = "rejected"])
                      ELSE Go(h, "a_rename_tab", [l EXCEPT !.gcq = <<>>])
     /\ ActP(h, "A_CheckNew", "open", PKTab, ExistRes(n), n)

A_RenameTab(h) ==
  /\ pc[h] = "a_rename_tab"
  /\ LET l == loc[h]  n == TN(l.tid) IN
     /\ FsRename(h, l.tmp, PKTmp, n, PKTab)
     /\ Go(h, "a_rm_tmp", [l EXCEPT !.names = Append(@, n), !.newTabs = @ \cup {n}])
  /\ ApiUnch /\ KeepCtr /\ KeepMem
  /\ ActP(h, "A_RenameTab", "rename", PKTmp, "ok", loc[h].tmp)

A_RmTmp(h) ==           \* deferred os.Remove(tab.Name()): ENOENT after the rename, ok for an empty table
  /\ pc[h] = "a_rm_tmp"
  /\ LET l == loc[h] IN
     /\ IF Exists(l.tmp) THEN FsRemove(h, l.tmp, PKTmp) ELSE FsNop
     /\ IF l.op = "empty" THEN Go(h, "a_close_unlock", [l EXCEPT !.tmp = ""])
        ELSE IF l.res = "rejected" THEN Go(h, IF l.newTabs = {} THEN "a_close_unlock" ELSE "a_close_rm", [l EXCEPT !.tmp = ""])   \* refused by checkAddition
        ELSE IF l.i + 1 < l.parts THEN Go(h, "a_temp", [l EXCEPT !.tmp = "", !.i = @ + 1])
        ELSE IF l.op = "abort" THEN Go(h, "a_close_rm", [l EXCEPT !.tmp = "", !.res = "rejected"])    \* the caller gives up: tr.Close()
        ELSE Go(h, "a_write", [l EXCEPT !.tmp = ""])
     /\ ActP(h, "A_RmTmp", "remove", PKTmp, ExistRes(l.tmp), l.tmp)
  /\ ApiUnch /\ KeepCtr /\ KeepMem

A_Write(h) ==           \* Commit: write the new list through the descriptor of the lock file
  /\ pc[h] = "a_write"
  /\ FsWriteNames(h, loc[h].fd, loc[h].names)
  /\ Go(h, "a_commit", loc[h])
  /\ ApiUnch /\ KeepCtr /\ KeepMem
  /\ ActP(h, "A_Write", "write", PKLock, "ok", LOCK)

A_Commit(h) ==          \* rename(tables.list.lock -> tables.list)
  /\ pc[h] = "a_commit"
  /\ IF Exists(LOCK)
     THEN /\ FsCommit(h, LOCK)
          /\ Go(h, "r_read", ToReload([loc[h] EXCEPT !.holdLock = FALSE, !.newTabs = {}], "a_done", TRUE))
     ELSE /\ FsNop      \* the lock file is gone: tr.Close() removes the new tables
          /\ Go(h, "a_close_rm", [loc[h] EXCEPT !.res = "other"])
  /\ ApiUnch /\ KeepCtr /\ KeepMem
  /\ ActP(h, "A_Commit", "rename", PKLock, ExistRes(LOCK), LOCK)

A_CloseRm(h) ==         \* Addition.Close(): remove the tables that were not committed
  /\ pc[h] = "a_close_rm"
  /\ \E n \in loc[h].newTabs :
       /\ IF Exists(n) THEN FsRemove(h, n, PKTab) ELSE FsNop
       /\ LET l == [loc[h] EXCEPT !.newTabs = @ \ {n}] IN
          IF l.newTabs = {} THEN Go(h, "a_close_unlock", l) ELSE Go(h, "a_close_rm", l)
       /\ ActP(h, "A_CloseRm", "remove", PKTab, ExistRes(n), n)
  /\ ApiUnch /\ KeepCtr /\ KeepMem

A_CloseUnlock(h) ==     \* Addition.Close(): lockFileName # "" => os.Remove(lock)
  /\ pc[h] = "a_close_unlock"
  /\ IF Exists(LOCK) THEN FsRemove(h, LOCK, PKLock) ELSE FsNop
  /\ LET l == [loc[h] EXCEPT !.holdLock = FALSE] IN
     IF l.auto /\ l.op = "empty" /\ l.res = "ok"       \* Stack.Add of nothing succeeded: AutoCompact runs all the same
     THEN (Go(h, "ret", l) \/ \E r \in AutoRanges(h) : ToAuto(h, l, r))
     ELSE Go(h, "ret", l)
  /\ ApiUnch /\ KeepCtr /\ KeepMem
  /\ ActP(h, "A_CloseUnlock", "remove", PKLock, ExistRes(LOCK), LOCK)

(* reload after the commit returned: its error is the result of Add *)
A_Done(h) ==
  /\ pc[h] = "a_done"
  /\ LET l == [loc[h] EXCEPT !.res = IF @ = "ok" /\ loc[h].rres # "ok" THEN "other" ELSE @] IN
     IF l.auto /\ l.res = "ok"                         \* Stack.Add: the commit succeeded, AutoCompact follows (its error is Add's result)
     THEN (Go(h, "ret", l) \/ \E r \in AutoRanges(h) : ToAuto(h, l, r))
     ELSE Go(h, "ret", l)
  /\ FsNop /\ ApiUnch /\ KeepCtr /\ KeepMem
  /\ Internal(h, "A_Done")

-----------------------------------------------------------------------------
(* compactRange(first, last) *)
CleanupNext(l) ==
  IF FixTmpCleanup /\ l.tmp # "" THEN "k_cl_tmp"
  ELSE IF l.subq # <<>> THEN "k_cl_sub"
  ELSE IF l.holdLock THEN "k_cl_lock"
  ELSE "ret"
ToCleanup(h, l) == Go(h, CleanupNext(l), l)

K_Lock(h) ==
  /\ pc[h] = "k_lock"
  /\ IF ~Exists(LOCK)
     THEN FsCreate(h, LOCK, KFile) /\ Go(h, "k_uptodate", [loc[h] EXCEPT !.holdLock = TRUE])
     ELSE FsNop /\ Go(h, "ret", loc[h])                 \* (false, nil)
  /\ ApiUnch /\ KeepCtr /\ KeepMem
  /\ ActP(h, "K_Lock", "createexcl", PKLock, CreateExclRes(LOCK), LOCK)

K_UpToDate(h) ==
  /\ pc[h] = "k_uptodate"
  /\ FsReadList(h)
  /\ IF ListNames = stack[h] THEN Go(h, "k_sublock", [loc[h] EXCEPT !.i = loc[h].first])
                             ELSE ToCleanup(h, loc[h])
  /\ ApiUnch /\ KeepCtr /\ KeepMem
  /\ ActP(h, "K_UpToDate", "readfile", PKList, ExistRes(LIST), LIST)

K_SubLock(h) ==
  /\ pc[h] = "k_sublock"
  /\ LET l == loc[h]  p == TL(stack[h][l.i]) IN
     /\ IF ~Exists(p)
        THEN /\ FsCreate(h, p, KFile)
             /\ LET l2 == [l EXCEPT !.i = @ + 1, !.subq = Append(@, p)] IN
                IF l2.i > l.last THEN Go(h, "k_unlock", l2) ELSE Go(h, "k_sublock", l2)
        ELSE FsNop /\ ToCleanup(h, l)
     /\ ActP(h, "K_SubLock", "createexcl", PKTabLock, CreateExclRes(p), p)
  /\ ApiUnch /\ KeepCtr /\ KeepMem

K_Unlock(h) ==          \* the list lock is released while merging
  /\ pc[h] = "k_unlock"
  /\ IF Exists(LOCK) THEN FsRemove(h, LOCK, PKLock) ELSE FsNop
  /\ Go(h, "k_temp", [loc[h] EXCEPT !.holdLock = FALSE])
  /\ ApiUnch /\ KeepCtr /\ KeepMem
  /\ ActP(h, "K_Unlock", "remove", PKLock, ExistRes(LOCK), LOCK)

MergedTab(h, f, l) ==
  [min |-> MinOf(stack[h][f]), max |-> MaxOf(stack[h][l]),
   txns |-> FoldLeft(LAMBDA acc, j : acc \o tabHist[stack[h][j]].txns, <<>>, [j \in 1..(l - f + 1) |-> f + j - 1]),
   hash |-> "h", refs |-> <<>>]

K_Temp(h) ==            \* TempFile + merge through the open readers + close
  /\ pc[h] = "k_temp"
  /\ LET l == loc[h]  id == nextId IN
     /\ ino' = Append(ino, [creator |-> h, kind |-> KTmp, names |-> <<>>, tab |-> MergedTab(h, l.first, l.last)])
     /\ dir' = DirPut(TM(id), Len(ino) + 1)
     /\ UNCHANGED <<lver, committed, cmarks, lastRead, tabHist, viol>>
     /\ nextId' = nextId + 1 /\ UNCHANGED <<opsLeft, nextTxn>>
     /\ Go(h, "k_relock", [l EXCEPT !.tmp = TM(id), !.tid = id])
  /\ ApiUnch /\ KeepMem
  /\ ActP(h, "K_Temp", "tempfile", PKTmp, "ok", TM(nextId))

StackNamesAfter(h, l) ==
  SubSeq(stack[h], 1, l.first - 1) \o <<TN(l.tid)>> \o SubSeq(stack[h], l.last + 1, Len(stack[h]))

K_Relock(h) ==
  /\ pc[h] = "k_relock"
  /\ LET l == loc[h] IN
     /\ IF ~Exists(LOCK)
        THEN /\ FsCreate(h, LOCK, KFile)
             /\ IF FixRebase THEN Go(h, "k_rebase", [l EXCEPT !.fd = Len(ino) + 1, !.holdLock = TRUE])
                ELSE Go(h, "k_rename_tab", [l EXCEPT !.fd = Len(ino) + 1, !.holdLock = TRUE, !.names = StackNamesAfter(h, l)])
        ELSE /\ FsNop
             /\ IF FixRelockOwner THEN ToCleanup(h, l)                                       \* (false, nil)
                ELSE ToCleanup(h, [l EXCEPT !.holdLock = TRUE, !.res = "other"])             \* D5
     /\ ActP(h, "K_Relock", "createexcl", PKLock, CreateExclRes(LOCK), LOCK)
  /\ ApiUnch /\ KeepCtr /\ KeepMem

(* the range [first, last] of the in-memory stack, looked up in the list just read *)
RangePos(h, l, cur) ==
  LET olds == SubSeq(stack[h], l.first, l.last)  n == Len(olds) IN
  {p \in 1..(Len(cur) - n + 1) : SubSeq(cur, p, p + n - 1) = olds}

K_Rebase(h) ==
  /\ pc[h] = "k_rebase"
  /\ FsReadList(h)
  /\ LET l == loc[h]  cur == ListNames  pos == RangePos(h, l, cur) IN
     IF pos = {} THEN ToCleanup(h, l)
     ELSE LET p == CHOOSE q \in pos : \A r \in pos : q <= r
              n == l.last - l.first + 1 IN
          Go(h, "k_rename_tab", [l EXCEPT !.names = SubSeq(cur, 1, p - 1) \o <<TN(l.tid)>> \o SubSeq(cur, p + n, Len(cur))])
  /\ ApiUnch /\ KeepCtr /\ KeepMem
  /\ ActP(h, "K_Rebase", "readfile", PKList, ExistRes(LIST), LIST)

K_RenameTab(h) ==
  /\ pc[h] = "k_rename_tab"
  /\ LET l == loc[h] IN
     /\ FsRename(h, l.tmp, PKTmp, TN(l.tid), PKTab)
     /\ Go(h, "k_write", [l EXCEPT !.tmp = ""])
  /\ ApiUnch /\ KeepCtr /\ KeepMem
  /\ ActP(h, "K_RenameTab", "rename", PKTmp, "ok", loc[h].tmp)

K_Write(h) ==
  /\ pc[h] = "k_write"
  /\ FsWriteNames(h, loc[h].fd, loc[h].names)
  /\ Go(h, "k_commit", loc[h])
  /\ ApiUnch /\ KeepCtr /\ KeepMem
  /\ ActP(h, "K_Write", "write", PKLock, "ok", LOCK)

K_Commit(h) ==
  /\ pc[h] = "k_commit"
  /\ LET l == loc[h] IN
     IF Exists(LOCK)
     THEN /\ FsCommit(h, LOCK)
          /\ Go(h, "k_delete", [l EXCEPT !.holdLock = FALSE, !.gcq = SubSeq(stack[h], l.first, l.last)])
     ELSE /\ FsNop
          /\ Go(h, "k_rm_dest", [l EXCEPT !.res = "other"])
  /\ ApiUnch /\ KeepCtr /\ KeepMem
  /\ ActP(h, "K_Commit", "rename", PKLock, ExistRes(LOCK), LOCK)

K_RmDest(h) ==
  /\ pc[h] = "k_rm_dest"
  /\ LET n == TN(loc[h].tid) IN
     /\ IF Exists(n) THEN FsRemove(h, n, PKTab) ELSE FsNop
     /\ ActP(h, "K_RmDest", "remove", PKTab, ExistRes(n), n)
  /\ ToCleanup(h, loc[h])
  /\ ApiUnch /\ KeepCtr /\ KeepMem

K_Delete(h) ==          \* remove the inputs, in order, then reload
  /\ pc[h] = "k_delete"
  /\ LET l == loc[h]  n == Head(l.gcq) IN
     /\ IF Exists(n) THEN FsRemove(h, n, PKTab) ELSE FsNop
     /\ IF Tail(l.gcq) # <<>> THEN Go(h, "k_delete", [l EXCEPT !.gcq = Tail(@)])
        ELSE Go(h, "r_read", ToReload([l EXCEPT !.gcq = <<>>], "k_reloaded", TRUE))
     /\ ActP(h, "K_Delete", "remove", PKTab, ExistRes(n), n)
  /\ ApiUnch /\ KeepCtr /\ KeepMem

K_Reloaded(h) ==        \* (true, err of reload); then the deferred cleanups
  /\ pc[h] = "k_reloaded"
  /\ ToCleanup(h, [loc[h] EXCEPT !.res = IF loc[h].rres # "ok" THEN "other" ELSE @])
  /\ FsNop /\ ApiUnch /\ KeepCtr /\ KeepMem /\ Internal(h, "K_Reloaded")

K_ClTmp(h) ==
  /\ pc[h] = "k_cl_tmp"
  /\ LET l == loc[h] IN
     /\ IF Exists(l.tmp) THEN FsRemove(h, l.tmp, PKTmp) ELSE FsNop
     /\ ToCleanup(h, [l EXCEPT !.tmp = ""])
     /\ ActP(h, "K_ClTmp", "remove", PKTmp, ExistRes(l.tmp), l.tmp)
  /\ ApiUnch /\ KeepCtr /\ KeepMem

K_ClSub(h) ==
  /\ pc[h] = "k_cl_sub"
  /\ LET l == loc[h]  p == Head(l.subq) IN
     /\ IF Exists(p) THEN FsRemove(h, p, PKTabLock) ELSE FsNop
     /\ ToCleanup(h, [l EXCEPT !.subq = Tail(@)])
     /\ ActP(h, "K_ClSub", "remove", PKTabLock, ExistRes(p), p)
  /\ ApiUnch /\ KeepCtr /\ KeepMem

K_ClLock(h) ==
  /\ pc[h] = "k_cl_lock"
  /\ IF Exists(LOCK) THEN FsRemove(h, LOCK, PKLock) ELSE FsNop
  /\ ToCleanup(h, [loc[h] EXCEPT !.holdLock = FALSE])
  /\ ApiUnch /\ KeepCtr /\ KeepMem
  /\ ActP(h, "K_ClLock", "remove", PKLock, ExistRes(LOCK), LOCK)

-----------------------------------------------------------------------------
(* Close (followed by NewStack: "reopen") *)
C_Read(h) ==
  /\ pc[h] = "c_read"
  /\ FsReadList(h)
  /\ LET names == ListNames
         gc == IF names = <<>> THEN {} ELSE SetOf(stack[h]) \ SetOf(names)
         l == [loc[h] EXCEPT !.gc = gc] IN
     /\ stack' = [stack EXCEPT ![h] = <<>>] /\ closedRd' = [closedRd EXCEPT ![h] = {}]
     /\ IF gc # {} THEN Go(h, "c_gc", l)
        ELSE IF l.op = "close" THEN Go(h, "ret", l)
        ELSE Go(h, "r_read", ToReload(l, "ret", TRUE))
  /\ ApiUnch /\ KeepCtr
  /\ ActP(h, "C_Read", "readfile", PKList, ExistRes(LIST), LIST)

C_Gc(h) ==
  /\ pc[h] = "c_gc"
  /\ \E n \in loc[h].gc :
       /\ IF Exists(n) THEN FsRemove(h, n, PKTab) ELSE FsNop
       /\ LET l == [loc[h] EXCEPT !.gc = @ \ {n}] IN
          IF l.gc # {} THEN Go(h, "c_gc", l)
          ELSE IF l.op = "close" THEN Go(h, "ret", l)
          ELSE Go(h, "r_read", ToReload(l, "ret", TRUE))
       /\ ActP(h, "C_Gc", "remove", PKTab, ExistRes(n), n)
  /\ ApiUnch /\ KeepCtr /\ KeepMem

-----------------------------------------------------------------------------
(* Clean *)
L_Lock(h) ==
  /\ pc[h] = "l_lock"
  /\ IF ~Exists(LOCK)
     THEN FsCreate(h, LOCK, KFile) /\ Go(h, "l_uptodate", [loc[h] EXCEPT !.holdLock = TRUE])
     ELSE FsNop /\ Go(h, "ret", [loc[h] EXCEPT !.res = "lock"])
  /\ ApiUnch /\ KeepCtr /\ KeepMem
  /\ ActP(h, "L_Lock", "createexcl", PKLock, CreateExclRes(LOCK), LOCK)

L_UpToDate(h) ==
  /\ pc[h] = "l_uptodate"
  /\ FsReadList(h)
  /\ IF ListNames = stack[h] THEN Go(h, "r_read", ToReload(loc[h], "l_readdir", TRUE))
                             ELSE Go(h, "l_unlock", [loc[h] EXCEPT !.res = "lock"])
  /\ ApiUnch /\ KeepCtr /\ KeepMem
  /\ ActP(h, "L_UpToDate", "readfile", PKList, ExistRes(LIST), LIST)

(* unlisted tables in the directory *)
L_ReadDir(h) ==
  /\ pc[h] = "l_readdir"
  /\ IF loc[h].rres # "ok" THEN Go(h, "l_unlock", [loc[h] EXCEPT !.res = "other"])
     ELSE LET un == {p \in DOMAIN dir : p \in DOMAIN tabHist /\ p \notin SetOf(stack[h])} IN
          IF un = {} THEN Go(h, "l_unlock", loc[h]) ELSE Go(h, "l_open", [loc[h] EXCEPT !.gc = un])
  /\ FsNop /\ ApiUnch /\ KeepCtr /\ KeepMem
  /\ ActP(h, "L_ReadDir", "readdir", PKOther, "ok", ".")

L_Open(h) ==
  /\ pc[h] = "l_open"
  /\ \E n \in loc[h].gc :
       /\ LET max == IF stack[h] = <<>> THEN 0 ELSE MaxOf(Last(stack[h]))
              l == [loc[h] EXCEPT !.gc = @ \ {n}] IN
          IF ~Exists(n) THEN (IF FixCleanEnoent THEN (IF l.gc = {} THEN Go(h, "l_unlock", l) ELSE Go(h, "l_open", l))
                              ELSE Go(h, "l_unlock", [l EXCEPT !.res = "other"]))     \* D15: Clean returned the ENOENT
          ELSE IF MaxOf(n) <= max THEN Go(h, "l_remove", [l EXCEPT !.tmp = n])
          ELSE IF l.gc = {} THEN Go(h, "l_unlock", l) ELSE Go(h, "l_open", l)
       /\ ActP(h, "L_Open", "open", PKTab, ExistRes(n), n)
  /\ FsNop /\ ApiUnch /\ KeepCtr /\ KeepMem

L_Remove(h) ==
  /\ pc[h] = "l_remove"
  /\ LET l == loc[h]  n == l.tmp IN
     /\ IF Exists(n) THEN FsRemove(h, n, PKTab) ELSE FsNop
     /\ IF l.gc = {} THEN Go(h, "l_unlock", [l EXCEPT !.tmp = ""]) ELSE Go(h, "l_open", [l EXCEPT !.tmp = ""])
     /\ ActP(h, "L_Remove", "remove", PKTab, ExistRes(n), n)
  /\ ApiUnch /\ KeepCtr /\ KeepMem

L_Unlock(h) ==
  /\ pc[h] = "l_unlock"
  /\ IF Exists(LOCK) THEN FsRemove(h, LOCK, PKLock) ELSE FsNop
  /\ Go(h, "ret", [loc[h] EXCEPT !.holdLock = FALSE])
  /\ ApiUnch /\ KeepCtr /\ KeepMem
  /\ ActP(h, "L_Unlock", "remove", PKLock, ExistRes(LOCK), LOCK)

-----------------------------------------------------------------------------
Ret(h) ==
  /\ pc[h] = "ret"
  /\ LET res == IF loc[h].op \in {"reload", "reopen", "open"} /\ loc[h].rres # "ok" THEN "other" ELSE loc[h].res IN
     /\ FsReturn(h, res)
     /\ viol' = viol \cup ReturnViol(h, res)
     /\ Go(h, IF loc[h].op = "close" \/ (loc[h].op \in {"open", "reopen"} /\ res # "ok") THEN "closed" ELSE "idle", L0)
     /\ ActP(h, "Ret", "internal", "", res, "")
  /\ UNCHANGED <<dir, ino, lver, committed, cmarks, lastRead, tabHist>>
  /\ KeepCtr /\ KeepMem

Crash(h) ==
  /\ CrashOn /\ pc[h] \notin {"idle", "crashed", "closed"}
  /\ FsCrash(h) /\ FsNop
  /\ pc' = [pc EXCEPT ![h] = "crashed"] /\ UNCHANGED loc
  /\ KeepCtr /\ KeepMem
  /\ ActP(h, "Crash", "crash", "", "", "")

FsSteps(h) ==
  \/ R_Read(h) \/ R_Open(h) \/ R_Reread(h) \/ R_Gc(h)
  \/ A_Lock(h) \/ A_UpToDate(h) \/ A_UnlockStale(h) \/ A_Temp(h) \/ A_Check(h) \/ A_CheckNew(h) \/ A_RenameTab(h) \/ A_RmTmp(h)
  \/ A_Write(h) \/ A_Commit(h) \/ A_CloseRm(h) \/ A_CloseUnlock(h)
  \/ K_Lock(h) \/ K_UpToDate(h) \/ K_SubLock(h) \/ K_Unlock(h) \/ K_Temp(h) \/ K_Relock(h) \/ K_Rebase(h)
  \/ K_RenameTab(h) \/ K_Write(h) \/ K_Commit(h) \/ K_RmDest(h) \/ K_Delete(h)
  \/ K_ClTmp(h) \/ K_ClSub(h) \/ K_ClLock(h)
  \/ C_Read(h) \/ C_Gc(h)
  \/ L_Lock(h) \/ L_UpToDate(h) \/ L_ReadDir(h) \/ L_Open(h) \/ L_Remove(h) \/ L_Unlock(h)

(* what the code computes between two filesystem calls and is visible in pc (folded into no filesystem action) *)
Silent(h) == A_Done(h) \/ K_Reloaded(h)

Step(h) == Calls(h) \/ FsSteps(h) \/ Silent(h) \/ Ret(h)

Next == \E h \in Handles : Step(h) \/ Crash(h)
Spec == Init /\ [][Next]_vars

(* Liveness.  Under weak fairness of every handle's next step, every call that was started returns (or its    *)
(* handle is killed): no reload that retries for ever, no compaction or Clean that waits for a lock for ever.  *)
(* The bounds are inside the actions (opsLeft, MaxIds), not a state constraint, so a non-progress cycle would   *)
(* be found.  (C10: "a reload that races with a compaction either settles on a newer version or reports        *)
(* failure"; C04: every call is acknowledged or fails.)                                                        *)
FairSpec == Spec /\ \A h \in Handles : WF_vars(Step(h))
C10_EveryCallReturns == \A h \in Handles : (pc[h] \notin {"idle", "crashed", "closed"}) ~> (pc[h] \in {"idle", "crashed", "closed"})

-----------------------------------------------------------------------------
(* Properties that need the implementation level *)

(* C04 with order: the transactions accounted for by the listed tables, read in  *)
(* stack order, ARE the committed sequence (nothing lost, duplicated, reordered) *)
C04_CommitOrder == [k \in DOMAIN MarkSeqOfNames(ListNames) |-> MarkSeqOfNames(ListNames)[k] \div 10]
                     = FoldLeft(LAMBDA acc, t : acc \o [j \in 1..Cardinality({m \in cmarks : m \div 10 = t}) |-> t], <<>>, committed)

(* C08: at most one handle believes it holds the list lock, and it is the creator of the inode at that path *)
C08_LockMutex ==
  LET holders == {h \in Handles : loc[h].holdLock /\ pc[h] # "crashed"} IN
  /\ Cardinality(holders) <= 1
  /\ \A h \in holders : Exists(LOCK) /\ Ino(LOCK).creator = h

(* C10: whenever a handle is idle, its in-memory stack is exactly one version of the list and every reader is open *)
C10_Snapshot == \A h \in Handles : pc[h] = "idle" => (stack[h] \in lver /\ closedRd[h] = {})

(* the list lock and the per-table locks never outlive the call that took them (unless it was killed) *)
C16_NoStaleLocks ==
  (\A h \in Handles : pc[h] \in {"idle", "closed"}) => \A p \in DOMAIN dir : p \in DOMAIN tabHist \/ p = LIST

Bounded == nextId <= MaxIds + 1
=============================================================================
