#!/usr/bin/env python3
"""Round-2 prompt: same task, but lists the summaries of the changes already made for this property (to be avoided)."""
import json, sys, glob, subprocess
pid = sys.argv[1]
base = subprocess.run([sys.executable, '/verif/tools/agent_prompt.py', pid, '3'], capture_output=True, text=True).stdout
base = base.replace('/tmp/seeded-out/%s-k/' % pid, '/tmp/seeded-out/%s-k/' % pid)
prev = []
for d in sorted(glob.glob('/verif/seeded/%s-*' % pid)):
    m = json.load(open(d + '/meta.json'))
    prev.append('  - ' + m.get('summary', '')[:400])
extra = """

ROUND 3. Other people have already produced the following seeded changes for this property; do NOT repeat them or close variants of them - look for DIFFERENT mechanisms, different functions, different failure paths (error paths, rarely used options such as SkipNameCheck / SkipIndexObjects / Unaligned / ExactLogMessage / SHA-256, multi-table Additions, Close/Clean, reflogs rather than refs, empty tables or stacks, boundary sizes, the interplay of two features):
%s
Name your output directories /tmp/seeded-out/%s-h, %s-i, %s-j (letters h, i, j) so that they do not collide with the earlier ones.
""" % ('\n'.join(prev), pid, pid, pid)
print(base + extra)
