------------------------------- MODULE Layout -------------------------------
(***************************************************************************)
(* The reftable file format as predicates over an abstract file, the       *)
(* "layout": what the independent decoder (harness/fmtdec, written from    *)
(* the format description only) finds when it walks a file sequentially.   *)
(* Byte-level matters (varint form, CRC-32, zlib, big-endian fields, zero  *)
(* padding bytes) are decided by the decoder and arrive as F.problems;     *)
(* everything structural is decided here.                                  *)
(*                                                                         *)
(*   F = [version, blocksize, min, max, hashsize, headersize, footerstart, *)
(*        size, refindex, objoff, objidlen, objindex, logoff, logindex,    *)
(*        problems, blocks]                                                *)
(*   block = [type \in {"r","o","g","i"}, sec (the section an index block  *)
(*        belongs to), off, len, rawlen, padded, restarts, recs (<<offset, *)
(*        prefix length>> per record), refs, logs, idxs (<<key, child      *)
(*        offset>>), objs (<<prefix, offsets>>), prefixes (per ref:        *)
(*        <<value prefix, peeled prefix>> of objidlen bytes), last]        *)
(* Keys are ranks (refs), <<rank, update index>> (logs), hex (objects).    *)
(***************************************************************************)
EXTENDS Naturals, Sequences, FiniteSets, SequencesExt, Functions, TLC

LogKeyLess(a, b) == a[1] < b[1] \/ (a[1] = b[1] /\ a[2] > b[2])

B(F) == F.blocks
Data(F, s)  == SelectSeq(B(F), LAMBDA b : b.sec = s /\ b.type = s)
Index(F, s) == SelectSeq(B(F), LAMBDA b : b.sec = s /\ b.type = "i")

LF_ByteLevel(F) == F.problems = <<>>

(* each block starts where the previous (possibly padded) block ends; the last one ends at the footer; *)
(* a block occupies either exactly its length or exactly one block size; log blocks are never padded   *)
LF_Contiguous(F) ==
  LET b == B(F)  n == Len(b) IN
  /\ n > 0 => b[1].off = 0 /\ b[n].off + b[n].padded = F.footerstart
  /\ n = 0 => F.footerstart = F.headersize
  /\ \A i \in 1..(n - 1) : b[i + 1].off = b[i].off + b[i].padded
  /\ \A i \in 1..n : /\ b[i].padded \in {b[i].rawlen, F.blocksize}
                     /\ b[i].rawlen <= b[i].padded
                     /\ (b[i].type = "g" => b[i].padded = b[i].rawlen)
                     /\ (b[i].type # "g" /\ F.blocksize > 0 => b[i].len <= F.blocksize)
                     /\ (b[i].type # "g" => b[i].rawlen = b[i].len)

(* r* i* o* i* g* i* *)
SecRank(s) == CASE s = "r" -> 1 [] s = "o" -> 2 [] s = "g" -> 3 [] OTHER -> 9
LF_Types(F) ==
  LET b == B(F) IN
  /\ \A i \in DOMAIN b : b[i].type \in {"r", "o", "g", "i"} /\ b[i].sec \in {"r", "o", "g"}
  /\ \A i \in 1..(Len(b) - 1) :
        \/ SecRank(b[i].sec) < SecRank(b[i + 1].sec) /\ b[i + 1].type # "i"
        \/ b[i].sec = b[i + 1].sec /\ (b[i].type = "i" => b[i + 1].type = "i")
  /\ Len(b) > 0 => b[1].type # "i"

(* the first record is a restart; restart offsets ascend; each addresses a record stored with a full key *)
LF_Restarts(F) ==
  \A i \in DOMAIN B(F) :
    LET b == B(F)[i] IN
    /\ b.recs # <<>> /\ b.restarts # <<>> /\ Len(b.restarts) <= 65535
    /\ b.restarts[1] = b.recs[1][1]
    /\ \A j \in 1..(Len(b.restarts) - 1) : b.restarts[j] < b.restarts[j + 1]
    /\ \A j \in DOMAIN b.restarts : \E r \in Range(b.recs) : r[1] = b.restarts[j] /\ r[2] = 0
    /\ b.recs[1][2] = 0

(* keys strictly ascending within and across the blocks of a section *)
Ascending(s, Less(_, _)) == \A i \in 1..(Len(s) - 1) : Less(s[i], s[i + 1])
AllRefs(F) == FoldLeft(LAMBDA acc, b : acc \o b.refs, <<>>, Data(F, "r"))
AllLogs(F) == FoldLeft(LAMBDA acc, b : acc \o b.logs, <<>>, Data(F, "g"))
AllObjs(F) == FoldLeft(LAMBDA acc, b : acc \o b.objs, <<>>, Data(F, "o"))
LF_Keys(F) ==
  /\ Ascending(AllRefs(F), LAMBDA a, b : a[1] < b[1])
  /\ Ascending(AllLogs(F), LogKeyLess)
  /\ \A i, j \in DOMAIN AllObjs(F) : i # j => AllObjs(F)[i][1] # AllObjs(F)[j][1]

(* Index of a section.  The index blocks are written level by level; level 1 lists *)
(* <<last key, offset>> of EVERY data block in order, level j+1 does the same for  *)
(* every block of level j; the footer addresses the first block of the top level.  *)
Entries(bs) == FoldLeft(LAMBDA acc, b : acc \o b.idxs, <<>>, bs)
Expected(bs) == [i \in DOMAIN bs |-> <<bs[i].last, bs[i].off>>]
(* the shortest prefix of `rest` holding as many entries as `prev` has blocks *)
RECURSIVE TakeLevel(_, _, _)
TakeLevel(rest, need, k) ==
  IF k > Len(rest) THEN 0
  ELSE LET got == Len(Entries(SubSeq(rest, 1, k))) IN
       IF got = need THEN k ELSE IF got > need THEN 0 ELSE TakeLevel(rest, need, k + 1)
RECURSIVE LevelsOK(_, _, _)
LevelsOK(prev, rest, top) ==      \* top = offset the footer gives for the section's index
  IF rest = <<>> THEN TRUE
  ELSE LET k == TakeLevel(rest, Len(prev), 1) IN
       /\ k > 0
       /\ Entries(SubSeq(rest, 1, k)) = Expected(prev)
       /\ IF k = Len(rest) THEN rest[1].off = top
          ELSE LevelsOK(SubSeq(rest, 1, k), SubSeq(rest, k + 1, Len(rest)), top)
IndexOff(F, s) == CASE s = "r" -> F.refindex [] s = "o" -> F.objindex [] s = "g" -> F.logindex
LF_IndexOf(F, s) ==
  /\ Index(F, s) = <<>> => IndexOff(F, s) = 0
  /\ Index(F, s) # <<>> => LevelsOK(Data(F, s), Index(F, s), IndexOff(F, s))
LF_Index(F) == LF_IndexOf(F, "r") /\ LF_IndexOf(F, "o") /\ LF_IndexOf(F, "g")

(* footer section positions *)
FirstOff(F, s) == IF Data(F, s) = <<>> THEN 0 ELSE Data(F, s)[1].off
LF_Footer(F) ==
  /\ F.objoff = FirstOff(F, "o")
  /\ F.logoff = FirstOff(F, "g")
  /\ (Data(F, "o") # <<>> => F.objidlen \in 1..F.hashsize)
  /\ F.min <= F.max

(* object index: one record per distinct object-id prefix occurring as a value or peeled value; *)
(* its positions are exactly the ref blocks holding such a ref, ascending - or none at all      *)
(* (the position list did not fit and was omitted)                                              *)
PrefixesIn(b) == {p \in UNION {{b.prefixes[i][1], b.prefixes[i][2]} : i \in DOMAIN b.prefixes} : p # ""}
LF_ObjIndex(F) ==
  LET objs == AllObjs(F)  rb == Data(F, "r")
      allp == UNION {PrefixesIn(rb[i]) : i \in DOMAIN rb} IN
  Data(F, "o") # <<>> =>
    /\ {o[1] : o \in Range(objs)} = allp
    /\ \A o \in Range(objs) :
         \/ o[2] = <<>>
         \/ /\ \A j \in 1..(Len(o[2]) - 1) : o[2][j] < o[2][j + 1]
            /\ Range(o[2]) = {rb[i].off : i \in {i \in DOMAIN rb : o[1] \in PrefixesIn(rb[i])}}

(* update indices of refs lie inside the header's range *)
LF_UpdateIdx(F) == \A r \in Range(AllRefs(F)) : F.min <= r[2] /\ r[2] <= F.max

WellFormed(F) == /\ LF_ByteLevel(F) /\ LF_Contiguous(F) /\ LF_Types(F) /\ LF_Restarts(F) /\ LF_Keys(F)
                 /\ LF_Index(F) /\ LF_Footer(F) /\ LF_ObjIndex(F) /\ LF_UpdateIdx(F)
=============================================================================
