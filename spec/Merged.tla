------------------------------- MODULE Merged -------------------------------
(***************************************************************************)
(* The merge ALGORITHM of merged.go - the array heap (pqLess, add, remove  *)
(* with sifting), mergedIter.init, nextEntry (pop the winner, advance its  *)
(* sub-iterator, discard every queued entry with the same key), Next       *)
(* (suppress deletions) - transcribed and checked against its declarative  *)
(* meaning in Store.tla for EVERY stack of a small universe: every         *)
(* multiplicity and order of equal keys across up to MaxTabs tables.       *)
(*                                                                         *)
(* A table is a sequence of <<key, value>> sorted by key, value "" being a *)
(* deletion; tables[i] is older than tables[i+1].                          *)
(***************************************************************************)
EXTENDS Naturals, Sequences, FiniteSets, SequencesExt, Functions, TLC

CONSTANTS NKeys, Vals, MaxTabs

(* ---------------- the heap: a sequence of entries [key, val, index] ---------------- *)
PqLess(a, b) == IF a.key = b.key THEN a.index > b.index ELSE a.key < b.key

Swap(h, i, j) == [h EXCEPT ![i] = h[j], ![j] = h[i]]

(* add: append, then sift up (indices are 1-based here: parent of i is i \div 2) *)
RECURSIVE SiftUp(_, _)
SiftUp(h, i) ==
  IF i <= 1 THEN h
  ELSE LET j == i \div 2 IN
       IF PqLess(h[j], h[i]) THEN h ELSE SiftUp(Swap(h, i, j), j)
PqAdd(h, e) == SiftUp(Append(h, e), Len(h) + 1)

(* remove: move the last entry to the root, then sift down *)
RECURSIVE SiftDown(_, _)
SiftDown(h, i) ==
  LET j == 2 * i  k == 2 * i + 1
      m1 == IF j <= Len(h) /\ PqLess(h[j], h[i]) THEN j ELSE i
      m2 == IF k <= Len(h) /\ PqLess(h[k], h[m1]) THEN k ELSE m1
  IN IF m2 = i THEN h ELSE SiftDown(Swap(h, i, m2), m2)
PqRemove(h) ==       \* returns <<top, rest>>
  LET n == Len(h)
      moved == IF n = 1 THEN <<>> ELSE [SubSeq(h, 1, n - 1) EXCEPT ![1] = h[n]]
  IN <<h[1], IF moved = <<>> THEN <<>> ELSE SiftDown(moved, 1)>>

HeapOK(h) == \A i \in 2..Len(h) : PqLess(h[i \div 2], h[i])

(* ---------------- the iterator ---------------- *)
(* state: pos[i] = how many records of table i were consumed; heap *)
Entry(tabs, i, p) == [key |-> tabs[i][p][1], val |-> tabs[i][p][2], index |-> i]

(* init: the first record at or after the seek key of every table goes into the queue *)
StartPos(tab, want) == IF \E p \in DOMAIN tab : tab[p][1] >= want
                       THEN CHOOSE p \in DOMAIN tab : tab[p][1] >= want /\ \A q \in DOMAIN tab : tab[q][1] >= want => p <= q
                       ELSE Len(tab) + 1
RECURSIVE InitHeap(_, _, _, _)
InitHeap(tabs, want, i, h) ==
  IF i > Len(tabs) THEN h
  ELSE LET p == StartPos(tabs[i], want) IN
       InitHeap(tabs, want, i + 1, IF p <= Len(tabs[i]) THEN PqAdd(h, Entry(tabs, i, p)) ELSE h)
InitPos(tabs, want) == [i \in DOMAIN tabs |-> StartPos(tabs[i], want)]

(* advanceSubIter(index): the next record of that table, if any, goes into the queue *)
Advance(tabs, pos, h, i) ==
  LET p == pos[i] + 1 IN
  <<[pos EXCEPT ![i] = p], IF p <= Len(tabs[i]) THEN PqAdd(h, Entry(tabs, i, p)) ELSE h>>

(* nextEntry: pop, advance, then discard every queued entry with the same key *)
RECURSIVE Discard(_, _, _, _)
Discard(tabs, pos, h, key) ==
  IF h = <<>> \/ h[1].key > key THEN <<pos, h>>
  ELSE LET r == PqRemove(h)
           a == Advance(tabs, pos, r[2], r[1].index)
       IN Discard(tabs, a[1], a[2], key)

RECURSIVE Drain(_, _, _, _, _)
Drain(tabs, pos, h, suppress, out) ==
  IF h = <<>> THEN out
  ELSE LET r == PqRemove(h)
           a == Advance(tabs, pos, r[2], r[1].index)
           d == Discard(tabs, a[1], a[2], r[1].key)
           rec == <<r[1].key, r[1].val>>
       IN Drain(tabs, d[1], d[2], suppress, IF suppress /\ r[1].val = "" THEN out ELSE Append(out, rec))

AlgSeek(tabs, want, suppress) == Drain(tabs, InitPos(tabs, want), InitHeap(tabs, want, 1, <<>>), suppress, <<>>)

(* ---------------- the meaning ---------------- *)
KeysOf(tabs) == UNION {{r[1] : r \in Range(tabs[i])} : i \in DOMAIN tabs}
Top(tabs, k) == CHOOSE i \in DOMAIN tabs : (\E r \in Range(tabs[i]) : r[1] = k) /\ \A j \in DOMAIN tabs : (\E r \in Range(tabs[j]) : r[1] = k) => j <= i
Overlay(tabs) == SetToSortSeq({CHOOSE r \in Range(tabs[Top(tabs, k)]) : r[1] = k : k \in KeysOf(tabs)}, LAMBDA a, b : a[1] < b[1])
DeclSeek(tabs, want, suppress) == SelectSeq(Overlay(tabs), LAMBDA r : r[1] >= want /\ (~suppress \/ r[2] # ""))

(* ---------------- exhaustive: every stack of the universe is an initial state ---------------- *)
VARIABLE tabs
Keys == 1..NKeys
(* a table = for every key: absent ("-") or a value / deletion *)
TableOf(f) == LET ks == {k \in Keys : f[k] # "-"} IN [j \in 1..Cardinality(ks) |-> LET k == CHOOSE k \in ks : Cardinality({x \in ks : x < k}) = j - 1 IN <<k, f[k]>>]
AllTables == {TableOf(f) : f \in [Keys -> Vals \cup {"-"}]}
Init == \E n \in 1..MaxTabs : tabs \in [1..n -> AllTables]
Next == UNCHANGED tabs
Spec == Init /\ [][Next]_tabs

C03_AlgIsOverlay ==
  \A want \in 0..(NKeys + 1) : \A suppress \in BOOLEAN : AlgSeek(tabs, want, suppress) = DeclSeek(tabs, want, suppress)
C03_HeapInvariant == \A want \in 0..(NKeys + 1) : HeapOK(InitHeap(tabs, want, 1, <<>>))
=============================================================================
