"""C19: readers and merged views can be shared by concurrent goroutines.

The specification has no action that changes a closed table, so the specification of a concurrent read
workload is: every call returns the sequential answer.  (a) the tables of every job are validated
sequentially by TLC against TraceTable (the sequential answer IS the specification's answer);
(b) drvrace, built with the Go race detector, issues mixed reads from 8-32 goroutines on shared, previously
unused Reader / Merged / Stack.Merged() objects (memory- and file-backed) and compares every answer with the
sequential one; a race report or a differing answer is the violation."""
import json, os, random, re, shutil, subprocess, time, collections, concurrent.futures as cf
import common as C, store as S, check_table as CT

LEVEL = "exploration"


def gen_job(rng, jid, tier):
    hash_ = rng.choice(["sha1", "s256"])
    hs = 20 if hash_ == "sha1" else 32
    ntab = rng.choice([2, 3, 3])
    names = CT.gen_names(rng, rng.choice([12, 40, 150]))
    pool = [CT.hexhash(rng, hs) for _ in range(5)]
    tabs = []
    idx = 1
    for t in range(ntab):
        sub = sorted(rng.sample(names, rng.randint(len(names) // 2, len(names))))
        refs = []
        for n in sub:
            x = rng.random()
            v = ["d", "", ""] if x < 0.1 else ["v", rng.choice(pool), ""] if x < 0.6 else ["p", rng.choice(pool), rng.choice(pool)] if x < 0.9 else ["s", names[0], ""]
            refs.append({"n": n, "i": idx, "v": v})
        logs = [{"n": n, "i": idx, "old": rng.choice(pool), "new": CT.hexhash(rng, hs), "user": "u", "time": 7, "msg": "m%d" % rng.randrange(99)}
                for n in sorted(rng.sample(names, len(names) // 2))]
        tabs.append({"min": idx, "max": idx, "refs": refs, "logs": logs})
        idx += 1
    keys = [""] + rng.sample(names, min(10, len(names))) + [n + "0" for n in rng.sample(names, 3)] + ["zzzz"]
    return {"id": jid, "blocksize": rng.choice([256, 512, 4096]), "unaligned": rng.random() < 0.3, "hash": hash_, "tabs": tabs,
            "seekrefs": keys, "seeklogs": [{"n": n, "i": i} for n in rng.sample(names, 4) for i in (1, 2, 9)], "oids": pool + ["ab" * hs],
            "goroutines": rng.choice([8, 16, 32]), "rounds": 2 if tier == "quick" else 6, "seed": rng.randint(1, 1 << 30)}


def popular_job(rng, jid, tier, hash_, nrefs, bs):
    """one object referenced from so many ref blocks that the writer omits its position list from the object index: RefsFor of that
    object falls back to a scan of all ref blocks - concurrently, through a reader nobody has used before"""
    hs = 20 if hash_ == "sha1" else 32
    pool = [CT.hexhash(rng, hs) for _ in range(3)]
    names = ["refs/heads/pop%05d" % k for k in range(nrefs)]
    tabs = []
    for idx in (1, 2):
        sub = names if idx == 1 else names[::7]
        refs = [{"n": n, "i": idx, "v": ["v", pool[0] if k % 11 else pool[1], ""]} for k, n in enumerate(sub)]
        logs = [{"n": n, "i": idx, "old": pool[2], "new": pool[0], "user": "u", "time": 7, "msg": "m"} for n in sub[:6]]
        tabs.append({"min": idx, "max": idx, "refs": refs, "logs": logs})
    tabs.reverse()      # the big table is the last one (the one whose sequential answers TLC validates); indices stay increasing
    tabs[0]["min"] = tabs[0]["max"] = 1
    tabs[1]["min"] = tabs[1]["max"] = 2
    for t in tabs:
        for r in t["refs"]:
            r["i"] = t["min"]
        for l in t["logs"]:
            l["i"] = t["min"]
    return {"id": jid, "blocksize": bs, "unaligned": False, "hash": hash_, "tabs": tabs,
            "seekrefs": ["", names[3], names[-1], "zzzz"], "seeklogs": [{"n": names[1], "i": 2}], "oids": pool + ["ab" * hs],
            "goroutines": 16, "rounds": 2 if tier == "quick" else 6, "seed": rng.randint(1, 1 << 30)}


def table_case(job):
    t = job["tabs"][-1]
    logs = [{"n": l["n"], "i": l["i"], "del": False, "old": l["old"], "new": l["new"], "user": l["user"], "email": "", "time": l["time"], "tz": 0, "msg": l["msg"]}
            for l in sorted(t["logs"], key=lambda l: l["n"])]
    case = {"id": "seq-" + job["id"], "blocksize": job["blocksize"], "restart": 0, "unaligned": job["unaligned"], "skipindex": False, "hash": job["hash"],
            "exact": False, "min": t["min"], "max": t["max"], "refs": sorted(t["refs"], key=lambda r: r["n"]), "logs": logs,
            "seekrefs": sorted(set(job["seekrefs"])), "seeklogs": job["seeklogs"], "oids": job["oids"], "universe": [], "layout": False}
    if len(t["refs"]) > 500:
        case["big"] = True      # too large for TLC to evaluate: the driver compares the scan, TLC sees the verdict
        case["seekrefs"], case["seeklogs"], case["oids"] = [], [], []
    return case


def run(pid, tier):
    t0 = time.time()
    seed = C.seed()
    rng = random.Random(seed * 1000003 + 19)
    sc = C.mkscratch(pid)
    known = C.known_findings().get(pid, {})
    try:
        mod = C.assemble(sc)
        drv = C.gobuild(mod, "drvrace", os.path.join(sc, "drvrace"), race=True, timeout=900)
        drvt = C.gobuild(mod, "drvtable", os.path.join(sc, "drvtable"))
        jobs = [gen_job(rng, "j%d" % i, tier) for i in range(24 if tier == "quick" else 160)]
        jobs += [popular_job(rng, "pop0", tier, "sha1", 3000, 256), popular_job(rng, "pop1", tier, "s256", 2000, 320)]
        # (a) sequential answers of the same tables against the specification
        seq = CT.run_cases([table_case(j) for j in jobs], drvt, sc)
        viols, rej, vstats = S.validate(seq, sc, module="TraceTable", chunk=6, jvms=12)
        nviol = 0
        if viols:
            print("VIOLATION property=%s replay=%s" % (pid, C.save_replay(pid, "sequential-%d" % seed, {"violations": viols[:10]})))
            print("  sequential reads of a table differ from the specification: %s" % (viols[:3],))
            nviol += 1

        # (b) concurrent reads under the race detector
        def one(i):
            jp, op = os.path.join(sc, "rj-%d.json" % i), os.path.join(sc, "ro-%d.json" % i)
            with open(jp, "w") as f:
                json.dump([jobs[i]], f)
            p = subprocess.run([drv, jp, op], stdout=subprocess.PIPE, stderr=subprocess.STDOUT, text=True, timeout=900,
                               env=dict(os.environ, TMPDIR=sc, GORACE="halt_on_error=1 exitcode=66"))
            res = None
            if os.path.exists(op):
                with open(op) as f:
                    res = json.load(f)[0]
            return p.returncode, p.stdout, res

        execs, combos, races, mism = 0, collections.Counter(), [], []
        with cf.ThreadPoolExecutor(max_workers=6) as ex:
            for i, (rc, out, res) in enumerate(ex.map(one, range(len(jobs)))):
                if "DATA RACE" in out:
                    m = re.search(r"WARNING: DATA RACE(?:.|\n){0,1500}", out)
                    races.append((jobs[i]["id"], m.group(0) if m else out[:1500]))
                elif rc != 0:
                    raise C.Inconclusive("race driver failed (rc=%d): %s" % (rc, out[-2000:]))
                if res:
                    execs += res["executions"]
                    combos.update(res["combos"])
                    mism += [(jobs[i]["id"], m) for m in res["mismatches"]]
        if races:
            fn = re.findall(r"\n\s+(?:verifwork/reftable|github.com/google/reftable)\.([^\n(]+)\(", races[0][1])
            sig = "race@" + (fn[0] if fn else "?")
            if sig in known:
                print("KNOWN-FINDING: property=%s %s (%s)" % (pid, known[sig], sig))
            else:
                path = C.save_replay(pid, "race-%d" % seed, {"job": [j for j in jobs if j["id"] == races[0][0]][0], "report": races[0][1]})
                print("VIOLATION property=%s replay=%s" % (pid, path))
                print("  data race reported by the Go race detector in %d of %d jobs; first: %s" % (len(races), len(jobs), " / ".join(fn[:4])))
                nviol += 1
        if mism:
            path = C.save_replay(pid, "mismatch-%d" % seed, {"job": [j for j in jobs if j["id"] == mism[0][0]][0], "mismatches": [m[1] for m in mism[:10]]})
            print("VIOLATION property=%s replay=%s" % (pid, path))
            print("  %d concurrent answers differ from the sequential answer; first: %s" % (len(mism), mism[0][1][:300]))
            nviol += 1
        if rej and nviol == 0:
            raise C.Inconclusive("cases rejected by TraceTable: %s" % rej[:3])
        cov = dict(evaluations=execs, distinct_nontrivial=len(combos),
                   rule="every evaluation is one read call (scan, seek+partial scan, RefsFor, ReadRef, ReadLogAt) issued by one of 8-32 goroutines "
                        "against a shared object; distinct = (shared object kind, call kind) pairs exercised concurrently, counted",
                   samples=[{"job": {k: v for k, v in jobs[0].items() if k not in ("tabs",)}, "tables": len(jobs[0]["tabs"])}, dict(list(combos.items())[:6])],
                   jobs=len(jobs), races=len(races), mismatches=len(mism), sequential_tables_validated_by_tlc=len(seq), sequential_events=vstats["events"],
                   combos=dict(combos), exhaustive=False)
        C.write_evidence(pid, tier, LEVEL, cov, time.time() - t0, nviol,
                         assumptions=["the Go race detector observes only the interleavings that actually occur in a run",
                                      "TLA+ contributes the result oracle (sequential answers validated against TraceTable); the no-data-race clause is observed, not model-checked"])
        print("%s %s: %d concurrent reads in %d jobs, %d object/call combinations, %d races, %d mismatches, %d violations, %.1fs" %
              (pid, tier, execs, len(jobs), len(combos), len(races), len(mism), nviol, time.time() - t0))
        return 1 if nviol else 0
    finally:
        shutil.rmtree(sc, ignore_errors=True)


def replay(pid, path):
    print(open(path).read()[:4000])
    return 1
