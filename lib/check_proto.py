"""Checks of the protocol family: C04 C05 C06 C08 C10 C16 (and the concurrent half of C09).

Pipeline of one check (see DESIGN.md sections 3-5):
  1. assemble the scratch module from /repo's working tree, build the scheduler driver
  2. TLC, exhaustive, on StackProto in the property's configuration: all StackFS/StackProto invariants
  3. direction A: TLC behaviours (simulation walks, seeded) are replayed on the real code step by step
     (conformance of every filesystem call: op, path class, result), which records a trace
  4. direction B: seeded random / PCT schedules and crash enumeration on the real code, recorded
  5. every recorded trace is validated by TLC against TraceStackFS: the property predicates are
     evaluated after every single filesystem call of the real execution
Verdict: VIOLATION only for a property predicate violated on a REAL execution.
"""
import json, os, random, re, shutil, sys, time, threading, collections
import common as C, proto as P

LEVEL = "model_checking"

# exhaustive StackProto configurations: (handles, maxops, maxids, initn, opkinds, crash)
EXH = {
    "quick": {
        "C04": [([1, 2], 2, 6, 2, ["add", "compactall", "reload"], False),
                ([1, 2], 2, 6, 1, ["addition", "abort", "compactall"], False),
                ([1, 2], 1, 6, 2, ["autoadd", "refused", "compactall"], False)],      # Add with automatic compaction (any range), refused Adds
        "C05": [([1, 2, 3], 1, 6, 3, ["add", "compactrange", "compactall"], False, [1], ["reopen", "clean"]),
                ([1, 2], 1, 6, 3, ["autoadd", "add"], False)],
        "C06": [([1, 2], 2, 6, 2, ["add", "compactall"], True)],
        "C08": [([1, 2, 3], 1, 5, 2, ["add", "compactall", "clean"], False)],
        "C09": [([1, 2], 2, 6, 2, ["add", "compactall", "reload"], False)],
        "C10": [([1, 2], 3, 4, 1, ["add", "compactrange"], False, [1], ["reload", "reopen"])],
        "C16": [([1, 2], 2, 6, 2, ["add", "empty", "compactall", "clean"], False, [1], ["clean", "empty"]),
                ([1, 2], 1, 6, 2, ["add", "abort", "compactall", "clean"], False),
                ([1, 2], 2, 6, 2, ["add", "close", "open", "clean"], False)],           # handles that come and go
    },
    "thorough": {
        "C04": [([1, 2], 3, 7, 2, ["add", "addition", "abort", "empty", "compactall", "reload"], False),
                ([1, 2, 3], 1, 7, 3, ["add", "addition", "compactall", "compactrange", "reload", "reopen", "clean"], False),
                ([1, 2], 2, 6, 1, ["autoadd", "refused"], False),
                ([1, 2, 3], 1, 6, 2, ["autoadd", "autocompact"], False)],
        "C05": [([1, 2], 3, 8, 3, ["add", "compactrange", "compactall", "reopen"], False),
                ([1, 2, 3], 1, 7, 4, ["add", "compactrange", "reopen", "clean"], False)],
        "C06": [([1, 2], 2, 7, 2, ["add", "addition", "compactall", "compactrange", "clean", "reopen"], True),
                ([1, 2, 3], 1, 6, 2, ["add", "compactall", "clean"], True)],
        "C08": [([1, 2, 3], 2, 7, 2, ["add", "compactall"], False),
                ([1, 2, 3, 4], 1, 6, 2, ["add", "compactall", "clean"], False)],
        "C09": [([1, 2], 3, 7, 2, ["add", "compactall", "compactrange", "reload", "clean"], False)],
        "C10": [([1, 2], 3, 6, 2, ["add", "compactrange", "compactall", "reload"], False),
                ([1, 2, 3], 2, 6, 1, ["add", "compactrange", "reload"], False)],
        "C16": [([1, 2], 3, 7, 2, ["add", "empty", "compactall", "clean", "reopen"], False),
                ([1, 2, 3], 1, 6, 2, ["add", "empty", "addition", "abort", "compactall", "clean", "reopen"], False)],
    },
}

# liveness (FairSpec => every started call returns): configurations checked next to the invariant jobs
LIVE = {
    "quick": {"C10": [([1, 2], 3, 4, 1, ["add", "compactrange"], False, [1], ["reload", "reopen"])],
              "C04": [([1, 2], 1, 5, 2, ["add", "compactall"], False)]},
    # (liveness checking costs about 2 000 states/s here: configurations of at most a few 10^5..10^6 states)
    "thorough": {"C10": [([1, 2], 3, 4, 1, ["add", "compactrange"], False, [1], ["reload", "reopen"]),
                         ([1, 2], 2, 6, 2, ["add", "compactrange", "reload"], False)],
                 "C04": [([1, 2], 2, 6, 2, ["add", "compactall", "clean"], False)],
                 "C16": [([1, 2], 2, 6, 2, ["add", "abort", "compactall", "clean"], False)]},
}

# direction A, systematic: transition cover of the state graph of a (smaller) configuration, replayed on the code.
# (handles, maxops, maxids, initn, opkinds, crash, readers, readerops, readermax), paths replayed (None = the complete cover)
COVER = {
    "quick": {
        "C04": (([1, 2], 1, 5, 2, ["add", "compactall"], False), None),
        "C05": (([1, 2], 1, 6, 3, ["add", "compactrange", "reopen"], False), 450),
        "C06": (([1, 2], 1, 5, 2, ["add", "compactall"], True), 600),
        "C08": (([1, 2, 3], 1, 5, 2, ["add"], False, [1], ["compactall"], 1), 500),
        "C09": (([1, 2], 1, 5, 2, ["add", "compactall"], False), 500),
        "C10": [(([1, 2], 3, 4, 1, ["add", "compactrange"], False, [1], ["reload"], 1), None),
                (([1, 2], 3, 6, 3, ["add", "compactrange"], False, [1], ["reload"], 1), 400)],
        "C16": (([1, 2], 1, 6, 2, ["add", "empty", "compactall", "clean", "addition", "abort"], False), 500),
    },
    "thorough": {
        "C04": (([1, 2], 2, 6, 2, ["add", "compactall"], False), 6000),
        "C05": (([1, 2], 1, 6, 3, ["add", "compactrange", "reopen"], False), None),
        "C06": (([1, 2], 1, 5, 2, ["add", "compactall"], True), None),
        "C08": (([1, 2, 3], 1, 5, 2, ["add"], False, [1], ["compactall"], 1), 6000),
        "C09": (([1, 2], 1, 5, 2, ["add", "compactall"], False), None),
        "C10": [(([1, 2], 3, 4, 1, ["add", "compactrange"], False, [1], ["reload", "reopen"], 3), None),
                (([1, 2], 3, 6, 3, ["add", "compactrange"], False, [1], ["reload"], 2), None)],
        "C16": (([1, 2], 1, 6, 2, ["add", "empty", "compactall", "clean", "addition", "abort"], False), None),
    },
}

# direction A / B volumes: (walks, walk depth, random runs, crash runs)
# (thorough: measured 2 h for C04 with 3000 / 6000 / covers of 25 000 paths on a loaded machine; sized to about 45 min)
VOL = {"quick": (150, 90, 250, 400), "thorough": (1000, 140, 2500, 100000)}

# op mix of the random runs, per property
WEIGHTS = {
    "C08": [("add", 4), ("compactall", 5), ("compactrange", 2), ("clean", 2), ("addition", 1), ("abort", 1)],
    "C10": [("add", 4), ("compactall", 2), ("compactrange", 4), ("reload", 4), ("read", 1), ("closeopen", 1)],
    "C16": [("add", 4), ("empty", 2), ("conflict", 3), ("overlap", 1), ("addition", 1), ("abort", 3), ("compactall", 3), ("compactrange", 2), ("clean", 3), ("closeopen", 2), ("autocompact", 1)],
    "C05": [("add", 4), ("addition", 1), ("overlap", 2), ("compactall", 2), ("compactrange", 5), ("closeopen", 2), ("clean", 2), ("reload", 1)],
}


# self-test of the specification (thorough tier): with a bug knob at FALSE the named invariant must be violated
# (non-vacuity of the invariant), and the counterexample, replayed on the current code, must NOT reproduce
# (regression guard for the repair).  (knob, configuration, invariants one of which must fail)
KNOBS = {
    "C04": [("FixRebase", ([1, 2], 2, 6, 2, ["add", "compactall", "reload"], False), ["C04_NoLostNoPhantom", "C04_OneAtATime", "C09_StaleNeverCommits"])],
    "C05": [("FixRebase", ([1, 2], 2, 6, 3, ["add", "compactrange"], False), ["C05_ListIntegrity", "C04_NoLostNoPhantom", "C04_OneAtATime", "C09_StaleNeverCommits", "C05_NoGc"])],
    "C06": [("FixRebase", ([1, 2], 2, 6, 2, ["add", "compactall"], True), ["C04_NoLostNoPhantom", "C04_OneAtATime", "C09_StaleNeverCommits"])],
    "C08": [("FixRelockOwner", ([1, 2, 3], 1, 5, 2, ["add", "compactall"], False), ["C08_LockMutex", "C08_OwnerOnly"])],
    "C09": [("FixRebase", ([1, 2], 2, 6, 2, ["add", "compactall", "reload"], False), ["C09_StaleNeverCommits", "C04_NoLostNoPhantom", "C04_OneAtATime"])],
    "C10": [("FixReuseClose", ([1, 2], 3, 4, 1, ["add", "compactrange", "reload"], False), ["C10_Snapshot"])],
    "C16": [("FixTmpCleanup", ([1, 2], 2, 6, 2, ["add", "compactall"], False), ["C16_IdleOwnsNothing", "C16_QuiescentDir"]),
            ("FixCleanEnoent", ([1, 2], 2, 6, 2, ["add", "empty", "compactall", "clean"], False), ["C16_GcSucceeds", "C04_OnlyLockFailures"])],
}


def knob_selftests(pid, sc, drv):
    res = []
    for knob, cfg, expect in KNOBS.get(pid, []):
        hs, mo, mi, n, ops, crash = cfg
        sd = os.path.join(sc, "knob-" + knob)
        shutil.copytree(os.path.join(C.VERIF, "spec"), sd)
        with open(os.path.join(sd, "k.cfg"), "w") as f:
            f.write(P.proto_cfg(hs, mo, mi, n, ops, crash, knobs={knob: False}))
        r = C.tlc(sd, "StackProto", "k.cfg", sc, workers=8, timeout=900, heap="12g")
        shutil.rmtree(sd, ignore_errors=True)
        inv, _ = C.tlc_violations(r["out"])
        entry = dict(knob=knob, expected_one_of=expect, violated=inv[:1], bites=bool(inv) and inv[0] in expect, states=r["distinct"])
        if inv and "The behavior up to this point is:" in r["out"]:
            acts = P.acts_of_text(r["out"].split("The behavior up to this point is:")[1])
            cr = P.run_of_acts(acts, "knob-" + knob, n, nh=len(hs))
            co = P.run_driver(drv, [cr], sc)
            cv, _, _ = P.validate(co, sc, jvms=1)
            mine = [v for v in cv if v[0] in P.PROP_INVS[pid]]
            entry["reproduces_on_current_code"] = bool(mine)
            entry["counterexample_steps"] = len(acts)
            if mine:
                entry["replay"] = C.save_replay(pid, "knob-%s" % knob, {"property": pid, "invariant": mine[0][0], "run": cr})
        res.append(entry)
    return res


def signature(inv, trace, line):
    ev = trace["events"][line - 1] if 0 < line <= len(trace["events"]) else {}
    return "%s@%s:%s" % (inv, ev.get("op", ev.get("ev", "?")), ev.get("pk", ev.get("res", "")))


def run(pid, tier):
    t0 = time.time()
    seed = C.seed()
    rng = random.Random(seed * 1000003 + int(pid[1:]))
    sc = C.mkscratch(pid)
    known = C.known_findings().get(pid, {})
    try:
        mod = C.assemble(sc)
        drv = C.gobuild(mod, "drvproto", os.path.join(sc, "drvproto"))

        # ---- 2. exhaustive model checking (in the background)
        exh = []

        # all TLC jobs of the thorough tier share one time budget (50 min): job k may use an equal share of what is left
        njobs = len(EXH[tier][pid]) + len(LIVE[tier].get(pid, []))
        tlc_t0 = time.time()
        done_jobs = [0]

        def share(default):
            if tier == "quick":
                return default
            left = 3000 - (time.time() - tlc_t0)
            done_jobs[0] += 1
            return int(max(300, left / max(1, njobs - done_jobs[0] + 1)))

        def exhaustive():
            for i, cfg in enumerate(EXH[tier][pid]):
                hs, mo, mi, n, ops, crash = cfg[:6]
                rd, rops = (cfg[6], cfg[7]) if len(cfg) > 6 else ((), ())
                sd = os.path.join(sc, "exh-%d" % i)
                shutil.copytree(os.path.join(C.VERIF, "spec"), sd)
                with open(os.path.join(sd, "exh.cfg"), "w") as f:
                    f.write(P.proto_cfg(hs, mo, mi, n, ops, crash, readers=rd, readerops=rops))
                r = C.tlc(sd, "StackProto", "exh.cfg", sc, workers=8 if tier == "quick" else 12,
                          timeout=share(420), heap="12g" if tier == "quick" else "24g")
                r["cfg"] = dict(handles=hs, maxops=mo, maxids=mi, initn=n, opkinds=ops, crash=crash, readers=list(rd), readerops=list(rops))
                exh.append(r)
                shutil.rmtree(sd, ignore_errors=True)
            for i, cfg in enumerate(LIVE[tier].get(pid, [])):
                hs, mo, mi, n, ops, crash = cfg[:6]
                rd, rops = (cfg[6], cfg[7]) if len(cfg) > 6 else ((), ())
                sd = os.path.join(sc, "live-%d" % i)
                shutil.copytree(os.path.join(C.VERIF, "spec"), sd)
                with open(os.path.join(sd, "live.cfg"), "w") as f:
                    f.write(P.proto_cfg(hs, mo, mi, n, ops, crash, readers=rd, readerops=rops, invariants=False, live=True))
                r = C.tlc(sd, "StackProto", "live.cfg", sc, workers=4 if tier == "quick" else 12,
                          timeout=share(420), heap="8g" if tier == "quick" else "24g")
                r["cfg"] = dict(handles=hs, maxops=mo, maxids=mi, initn=n, opkinds=ops, crash=crash, readers=list(rd), readerops=list(rops), liveness="C10_EveryCallReturns under FairSpec")
                r["live"] = True
                exh.append(r)
                shutil.rmtree(sd, ignore_errors=True)

        th = threading.Thread(target=exhaustive)
        th.start()

        # ---- 3. direction A: walks of the model replayed on the code
        nw, depth, nr, nc = VOL[tier]
        runs = []
        cfg0 = EXH[tier][pid][0]
        hs, mo, mi, n, ops, crash = cfg0[:6]
        rd, rops = (cfg0[6], cfg0[7]) if len(cfg0) > 6 else ((), ())
        walk_cfg = P.proto_cfg(hs, max(mo, 3), mi + 3, n, ops, crash, invariants=False, readers=rd, readerops=rops)
        per = 50 if tier == "quick" else 250
        walk_jobs = [(per, seed * 100 + k) for k in range((nw + per - 1) // per)]
        walks = []
        import concurrent.futures as cf
        with cf.ThreadPoolExecutor(max_workers=4 if tier == "quick" else 8) as ex:
            for ws, r in ex.map(lambda j: P.tlc_walks(sc, walk_cfg, j[0], depth, j[1]), walk_jobs):
                if r["rc"] == -9:
                    raise C.Inconclusive("TLC simulation timed out")
                walks += ws
        for i, w in enumerate(walks):
            if len(w) > 2:
                runs.append(P.run_of_acts(w, "w%d" % i, n, hash_="sha1" if i % 3 else "s256", nh=len(hs)))
        # ... and the transition cover
        covers = COVER[tier][pid]
        covers = covers if isinstance(covers, list) else [covers]
        cover_info = []

        def one_cover(job):
            ci, (ccfg, cmax) = job
            chs, cmo, cmi, cn, cops, ccrash = ccfg[:6]
            crd, crops, crmax = (ccfg[6], ccfg[7], ccfg[8]) if len(ccfg) > 6 else ((), (), None)
            cover_cfg = P.proto_cfg(chs, cmo, cmi, cn, cops, ccrash, invariants=False, readers=crd, readerops=crops, readermax=crmax)
            cpaths, ccov, ctotal, cres = P.tlc_cover(sc, cover_cfg, 10 ** 7, seed * 10 + ci, workers=4, timeout=600 if tier == "quick" else 3000)
            full_paths = len(cpaths)
            if cmax is not None and len(cpaths) > cmax:
                cpaths = random.Random(seed).sample(cpaths, cmax)
            rs = [P.run_of_acts(w, "v%d_%d" % (ci, i), cn, hash_="sha1" if i % 3 else "s256", nh=len(chs)) for i, w in enumerate(cpaths)]
            info = dict(config=dict(handles=chs, maxops=cmo, maxids=cmi, initn=cn, opkinds=cops, crash=ccrash, readers=list(crd), readerops=list(crops)),
                        states=cres["distinct"], transitions=ctotal, paths_in_full_cover=full_paths, paths_replayed=len(cpaths),
                        complete=cmax is None or full_paths <= cmax)
            return rs, info

        with cf.ThreadPoolExecutor(max_workers=3) as ex:
            for rs, info in ex.map(one_cover, list(enumerate(covers))):
                runs += rs
                cover_info.append(info)
        nwalks = len(runs)

        # ---- 4. direction B: schedules chosen on the code side
        for i in range(nr):
            runs.append(P.random_run(rng, "r%d" % i, weights=WEIGHTS.get(pid)))
        # a handle configured with the other hash function (fixed scenarios next to the random ones): it gets its handle while the
        # directory is empty, a correctly configured handle commits first; preempted after k of its filesystem calls
        for k in (0, 3, 6, 9, 12, 20, 60):
            tg = P.TxnGen(random.Random(5 + k))
            runs.append({"id": "alien-%d" % k, "hash": "sha1" if k % 2 == 0 else "s256", "nh": 3, "init": [], "preopen": True,
                         "progs": {"1": [tg.add(), tg.add()], "2": [tg.add(), {"op": "compactall"}], "3": [tg.add(), tg.add(), tg.add(), {"op": "reload"}, tg.add()]},
                         "auto": {}, "alien": {"3": True}, "sched": [1] * 14 + [3] * k + [1] * 30 + [3] * 300, "tail": "seq", "seed": k})
        pre, preempt_total = preempt_runs(drv, sc, rng, 900 if tier == "quick" else 10 ** 6, pid, tier == "thorough")
        runs += pre
        # error paths: every filesystem call of every call kind fails once with an injected I/O error (+ random runs with one fault)
        flt, fault_total = fault_runs(drv, sc, rng, 800 if tier == "quick" else 10 ** 6)
        runs += flt
        for i in range(nr // 3):
            runs.append(P.random_run(rng, "rf%d" % i, fault=True, weights=WEIGHTS.get(pid)))
        crash_total, crash_complete = 0, None
        if pid == "C06":
            cr, crash_total, crash_complete = crash_runs(drv, sc, rng, nc)
            runs += cr
        elif pid in ("C05", "C16", "C04"):
            for i in range(min(nc // 5, 3000)):
                runs.append(P.random_run(rng, "c%d" % i, crash=True, weights=WEIGHTS.get(pid)))

        outs = P.run_driver(drv, runs, sc)
        byid = {o["id"]: o for o in outs}
        runbyid = {r["id"]: r for r in runs}
        errs = [o for o in outs if o.get("err")]
        if errs:
            raise C.Inconclusive("driver error: %s" % errs[0]["err"])
        drift = [(o["id"], o["drift"][0]) for o in outs if o.get("drift")]

        # ---- 5. validation of every recorded trace
        viols, rej, vstats = P.validate(outs, sc, jvms=12)
        # ---- 5b. conformance to the implementation-level specification: every recorded execution inside StackProto's vocabulary
        # (schedules chosen on the code side included) must be a behaviour of StackProto, event by event (TraceStackProto)
        cand = [o for o in outs if not o.get("fault")]
        if tier == "quick" and len(cand) > 700:
            keepw = [o for o in cand if o["id"][0] not in "wv"]          # code-driven schedules first: the walks conform by construction
            cand = random.Random(seed).sample(keepw, min(len(keepw), 600)) + [o for o in cand if o["id"][0] in "wv"][:100]
        conf_in, conf_drift, conf_stats = P.conform(cand, runs, sc, jvms=8)
        conf_self = P.conform_selftest(cand, runs, sc)
        th.join()

        # ---- verdicts
        # (runs with an injected I/O fault are judged by the predicates that hold on error paths too)
        mine = [v for v in viols if v[0] in P.PROP_INVS[pid] and (not runbyid[v[1]].get("fault") or v[0] in FAULT_INVS)]
        others = [v for v in viols if v not in mine]
        out_lines, nviol, seen_known = [], 0, set()
        bysig = collections.OrderedDict()
        for inv, tid, line in mine:
            sig = signature(inv, byid[tid], line)
            bysig.setdefault(sig, []).append((inv, tid, line))
        for sig, lst in bysig.items():
            if sig in known:
                seen_known.add(sig)
                print("KNOWN-FINDING: property=%s %s (%s)" % (pid, known[sig], sig))
                continue
            inv, tid, line = lst[0]
            r = dict(runbyid[tid])
            r["sched"], r["tail"], r["expect"] = byid[tid]["sched"], "seq", []
            path = C.save_replay(pid, "%s-%d" % (inv, seed), {"property": pid, "invariant": inv, "line": line, "signature": sig,
                                                                 "count": len(lst), "run": r,
                                                                 "event": byid[tid]["events"][line - 1] if line <= len(byid[tid]["events"]) else None})
            print("VIOLATION property=%s replay=%s" % (pid, path))
            print("  %s violated at event %d of run %s (%d runs with this signature): %s" % (inv, line, tid, len(lst), sig))
            nviol += 1

        # model-level counterexamples must be reproducible on the code to count
        model_viol = []
        states = trans = 0
        for r in exh:
            states += r["distinct"]
            trans += r["generated"]
            if r["rc"] == -9:
                if C.within_budget(r, tier) or nviol:
                    continue        # (a violation on a real execution stands, whatever became of the exhaustive job)
                raise C.Inconclusive("exhaustive TLC run timed out: %s" % r["cfg"])
            inv, dead = C.tlc_violations(r["out"])
            if r.get("live"):
                if "Model checking completed. No error has been found" not in r["out"]:
                    raise C.Inconclusive("the specification admits a call that never returns (or TLC failed) in %s:\n%s" % (r["cfg"], r["out"][-3000:]))
                continue
            if inv:
                model_viol.append((inv[0], r))
            elif "Model checking completed. No error has been found" not in r["out"]:
                raise C.Inconclusive("TLC failed on StackProto:\n" + r["out"][-3000:])
        for inv, r in model_viol:
            acts = P.acts_of_text(r["out"].split("The behavior up to this point is:")[1])
            cr = P.run_of_acts(acts, "cex-" + inv, r["cfg"]["initn"], nh=len(r["cfg"]["handles"]))
            co = P.run_driver(drv, [cr], sc)
            cv, crej, _ = P.validate(co, sc, jvms=1)
            cmine = [v for v in cv if v[0] in P.PROP_INVS[pid]]
            if cmine and nviol == 0:
                path = C.save_replay(pid, "cex-%s" % inv, {"property": pid, "invariant": cmine[0][0], "run": cr})
                print("VIOLATION property=%s replay=%s" % (pid, path))
                print("  TLC counterexample of %s on StackProto reproduced on the code: %s" % (inv, cmine[0]))
                nviol += 1
            elif not cmine and nviol == 0:
                raise C.Inconclusive("StackProto violates %s but the counterexample does not reproduce on the code (drift %s): "
                                     "the specification no longer describes the code" % (inv, co[0]["drift"][:2]))

        if rej and nviol == 0:
            raise C.Inconclusive("traces rejected by TraceStackFS (recorder/filesystem-model mismatch): %s" % rej[:3])

        selftests = knob_selftests(pid, sc, drv) if tier == "thorough" else []
        for st in selftests:
            if st.get("reproduces_on_current_code"):
                # a repaired defect is back: the behaviour TLC found for the specification mutant IS a behaviour of the code
                print("VIOLATION property=%s replay=%s" % (pid, st["replay"]))
                print("  the counterexample of specification mutant %s=FALSE reproduces on the code" % st["knob"])
                nviol += 1

        # ---- evidence
        actcount = collections.Counter()
        for w in walks:
            for a in w:
                actcount[a["a"]] += 1
        sample_walk = [[a["h"], a["a"], a["res"]] for a in (walks[0] if walks else [])][:60]
        sample_trace = []
        if outs:
            o = outs[min(len(outs) - 1, nwalks)]
            for e in o["events"][:50]:
                if e["ev"] == "fs":
                    sample_trace.append("h%d %s %s%s -> %s" % (e["h"], e["op"], e["path"], (" -> " + e["to"]) if "to" in e else "", e["res"]))
                else:
                    sample_trace.append("h%d %s %s" % (e["h"], e["ev"], e.get("op", e.get("res", ""))))
        cov = dict(
            states=states, transitions=trans,
            traces_validated_against_impl=len(outs) - len(set(v[1] for v in mine)),
            samples=[{"tlc_walk_replayed": sample_walk}, {"recorded_trace": sample_trace}],
            exhaustive=all("No error has been found" in r["out"] for r in exh),
            exhaustive_configs=[dict(r["cfg"], distinct=r["distinct"], generated=r["generated"], wall=round(r["wall"], 1), complete=not r.get("incomplete", False)) for r in exh],
            walks_replayed=nwalks, walks_with_drift=len([d for d in drift if d[0][0] in "wv"]),
            transition_covers=cover_info,
            drift_examples=[d[1] for d in drift[:3]],
            code_driven_runs=len(outs) - nwalks, crash_runs=len([r for r in runs if r.get("crash")]),
            crash_points_total=crash_total, crash_enumeration_complete=crash_complete,
            single_preemption_runs=len(pre), single_preemption_space=preempt_total,
            traces_checked_against_StackProto=conf_in, traces_conforming_to_StackProto=conf_in - len(conf_drift),
            conformance_events=conf_stats["events"], conformance_selftest=conf_self,
            conformance_drift_examples=[dict(run=d[0], event_index=d[1], event=d[2]) for d in conf_drift[:3]],
            fault_injection_runs=len([r for r in runs if r.get("fault")]), fault_points_total=fault_total,
            events_validated=vstats["events"], trace_states=vstats["states"],
            model_actions_replayed=dict(actcount),
            invariants=P.PROP_INVS[pid], other_invariant_violations=len(others), specification_mutants=selftests,
            known_findings_seen=sorted(seen_known),
        )
        C.write_evidence(pid, tier, LEVEL, cov, time.time() - t0, nviol,
                         assumptions=["process crash = the process stops between two filesystem calls (no power loss)",
                                      "filesystem calls are atomic and sequentially consistent (POSIX rename/O_EXCL on one machine)",
                                      "table contents are projected by the independent decoder fmtdec"])
        for d in drift[:5]:
            print("DRIFT property=%s run=%s %s" % (pid, d[0], d[1]))
        for d in conf_drift[:5]:
            print("DRIFT property=%s run=%s event %d is not a step of StackProto: %s" % (pid, d[0], d[1], json.dumps(d[2])))
        print("%s %s: %d states, %d traces (%d walks, %d drift), %d of %d traces conform to StackProto, %d violations, %.1fs" %
              (pid, tier, states, len(outs), nwalks, len(drift), conf_in - len(conf_drift), conf_in, nviol, time.time() - t0))
        return 1 if nviol else 0
    finally:
        shutil.rmtree(sc, ignore_errors=True)


def preempt_runs(drv, sc, rng, n, pid, full):
    """Single-preemption enumeration on the code: for every ordered pair of calls (a by handle 1, b by handle 2), every initial
    stack of 2-4 tables and every preemption point k: handle 1 performs its first k filesystem calls, then handle 2 runs its call
    to completion, then handle 1 finishes - every scenario in which one call falls entirely into a window of another.
    A dry run of every call tells where its windows are: `full` takes every k, otherwise the points at which the call does not
    hold tables.list.lock after having held it (the merge window of a compaction), the points after a rename, and the first two.
    Returns (runs, size of the space)."""
    def calls(tg):
        return [("add", lambda: tg.add()), ("addition", lambda: tg.addition()), ("abort", lambda: tg.abort()), ("compactall", lambda: {"op": "compactall"}),
                ("c01", lambda: {"op": "compactrange", "first": 0, "last": 1}), ("c12", lambda: {"op": "compactrange", "first": 1, "last": 2}),
                ("c23", lambda: {"op": "compactrange", "first": 2, "last": 3}), ("reopen", lambda: {"op": "reopen"}),
                ("clean", lambda: {"op": "clean"}), ("reload", lambda: {"op": "reload"}), ("autoadd", lambda: tg.add())]
    names = [nm for nm, _ in calls(P.TxnGen(random.Random(0)))]
    # dry runs: the gate sequence of every call alone
    dry = []
    # five tables: a compaction of a middle range, with tables above AND below it that the other handle can compact or replace
    five_a, five_b = ["c12", "c23"], ["c01", "c12", "c23", "compactall", "add", "autoadd", "reopen", "clean"]
    for initn in (2, 3, 4, 5):
        for na in (names if initn < 5 else five_a):
            tg = P.TxnGen(random.Random(initn * 100 + 1))
            init = [tg.add() for _ in range(initn)]
            dry.append({"id": "d%d-%s" % (initn, na), "hash": "sha1", "nh": 1, "init": init, "preopen": True, "progs": {"1": [dict(calls(tg))[na]()]},
                        "auto": {"1": na == "autoadd"}, "sched": [1] * 200, "tail": "seq", "seed": 1})
    points = {}
    for d, o in zip(dry, P.run_driver(drv, dry, sc)):
        evs = [e for e in o["events"] if e["h"] == 1 and e["ev"] in ("fs", "call") and not (e["ev"] == "fs" and e["op"] == "close")]
        # gates of handle 1 after the set-up open: index them from the call event of the program
        start = max(i for i, e in enumerate(evs) if e["ev"] == "call")
        gates = evs[start:]
        ks, held, had, committed, after = set([2, 3]), False, False, False, 0
        for gi, e in enumerate(gates):
            k = gi + 1          # preempting BEFORE gate k+1 = after having performed k gates
            if e["ev"] == "fs" and e.get("pk") == "listlock":
                if e["op"] == "createexcl" and e["res"] == "ok":
                    held, had = True, True
                if e["op"] in ("remove", "rename") and e["res"] == "ok":
                    held = False
                    committed = committed or e["op"] == "rename"
            if had and not held and not committed:
                ks.add(k + 1)                       # the window in which the list lock was given up (merge phase of a compaction)
            elif committed and after < 3:
                ks.add(k + 1)                       # the first steps after the commit (removal of the inputs, reload)
                after += 1
            elif e["ev"] == "fs" and e["op"] == "rename":
                ks.add(k + 1)
        points[d["id"][1:]] = (sorted(k for k in ks if k <= len(gates) + 1), len(gates))
    runs = []
    i = 0
    for initn in (2, 3, 4, 5):
        for na in (names if initn < 5 else five_a):
            sel, ng = points["%d-%s" % (initn, na)]
            for nb in (names if initn < 5 else five_b):
                for k in (range(2, ng + 2) if full else sel):
                    tg = P.TxnGen(random.Random(i * 17 + 3))
                    init = [tg.add() for _ in range(initn)]
                    ca = dict(calls(tg))[na]()
                    cb = dict(calls(tg))[nb]()
                    runs.append({"id": "p%d-%s-%s-%d" % (initn, na, nb, k), "hash": "sha1" if i % 3 else "s256", "nh": 2, "init": init, "preopen": True,
                                 "progs": {"1": [ca], "2": [cb, {"op": "reload"}]}, "auto": {"1": na == "autoadd", "2": nb == "autoadd"},
                                 "sched": [1] * k + [2] * 120 + [1] * 120, "tail": "seq", "seed": i})
                    i += 1
    total = len(runs)
    if n < total:
        # compaction against compaction, and everything on five tables, always; the rest sampled
        comp = {"c01", "c12", "c23", "compactall", "autoadd"}
        first = [r for r in runs if r["id"].startswith("p5-") or (r["id"].split("-")[1] in comp and r["id"].split("-")[2] in comp)]
        rest = [r for r in runs if r not in first]
        runs = first + random.Random(rng.random()).sample(rest, max(0, min(len(rest), n - len(first))))
    return runs, total


def crash_scenarios():
    """call kinds x initial stacks for the crash enumeration; handle 1 runs the call, handle 2 continues afterwards"""
    kinds = [
        ("add", [{"op": "add"}]), ("addition", [{"op": "addition"}]), ("abort", [{"op": "abort"}]), ("compactall", [{"op": "compactall"}]),
        ("compactrange01", [{"op": "compactrange", "first": 0, "last": 1}]), ("compactrange12", [{"op": "compactrange", "first": 1, "last": 2}]),
        ("clean", [{"op": "clean"}]), ("reopen", [{"op": "reopen"}]), ("autoadd", [{"op": "autoadd"}]),
        ("expiry", [{"op": "compactall", "expiry": {"Time": 0, "Min": 2, "Max": 0}}]), ("empty", [{"op": "empty"}]),
    ]
    scen = []
    i = 0
    for name, kind in kinds:
        for initn in (0, 1, 2, 3, 4):
            tg = P.TxnGen(random.Random(i * 31 + 7))
            init = [tg.add() for _ in range(initn)]
            prog, auto = [], False
            for c in kind:
                if c["op"] == "add":
                    prog.append(tg.add())
                elif c["op"] == "autoadd":
                    prog.append(tg.add())
                    auto = True
                elif c["op"] == "addition":
                    prog.append(tg.addition())
                elif c["op"] == "abort":
                    prog.append(tg.abort())
                elif c["op"] == "empty":
                    prog.append(tg.empty())
                else:
                    prog.append(dict(c))
            follow = [tg.add(), {"op": "compactall"}, tg.add()]
            scen.append({"id": "k%s-%d" % (name, initn), "hash": "sha1" if i % 2 else "s256", "nh": 2, "init": init, "preopen": True,
                         "progs": {"1": prog, "2": follow}, "auto": {"1": auto}, "sched": [1] * 200, "tail": "seq", "seed": i})
            i += 1
    return scen


def crash_runs(drv, sc, rng, n):
    """Crash enumeration, complete: a dry run of every scenario tells how many filesystem calls (gates) the call of
    handle 1 makes; then one run per scenario and per k in 1..gates: handle 1 is killed before its k-th gate, handle 2
    continues (Add, compaction, Add), then a fresh open.  Returns (runs, total number of crash points, complete?)."""
    scen = crash_scenarios()
    dry = P.run_driver(drv, scen, sc)
    runs = []
    for s, o in zip(scen, dry):
        gates = sum(1 for h in o["sched"] if h == 1)
        for k in range(1, gates + 1):
            r = dict(s)
            r["id"] = "%s-c%d" % (s["id"], k)
            r["crash"] = [{"h": 1, "before": k}]
            runs.append(r)
    total = len(runs)
    if n < total:
        rng.shuffle(runs)
        return runs[:n], total, False
    return runs, total, True


# predicates that must hold in executions with injected I/O faults as well (what an error path may never do); left out: the
# clauses that an I/O error makes unattainable (an Add that fails in the reload AFTER its commit point; Clean / Close that
# report the error; "only lock failures")
FAULT_INVS = ["C04_NoLostNoPhantom", "C04_AckedIsCommitted", "C04_OneAtATime", "C04_FinalView", "C05_ListIntegrity", "C05_NoGc", "C06_Atomic",
              "C08_OwnerOnly", "C09_StaleNeverCommits", "C10_OneVersion", "C10_Readable", "C10_Content", "C10_Terminates",
              "C16_IdleOwnsNothing", "C16_QuiescentDir"]


def fault_runs(drv, sc, rng, n):
    """Fault enumeration on the error paths: for every call kind x initial stack x situation (alone / while another handle is in
    the middle of an Add and holds tables.list.lock / while another handle is in the merge window of a compaction and holds the
    table locks), a dry run tells which filesystem calls handle 1 makes; then one run per call that can fail with an I/O error
    (open, read, create, temp file, write, rename - not remove, not close): that call is NOT performed and returns EIO.
    Handle 1 then goes on (a reload, an Add), handle 2 finishes, a fresh handle looks at the result.
    Returns (runs, total number of fault points)."""
    scen = []
    for s in crash_scenarios():
        initn = len(s["init"])
        for variant in ("alone", "lockheld", "merging"):
            if variant == "merging" and initn < 2:
                continue
            tg = P.TxnGen(random.Random(len(scen) * 13 + 5), start=300)
            r = dict(s)
            r["id"] = "f%s-%s" % (s["id"][1:], variant)
            r["progs"] = {"1": list(s["progs"]["1"]) + [{"op": "reload"}, tg.add(), {"op": "clean"}],
                          "2": [tg.add() if variant != "merging" else {"op": "compactall"}, tg.add(), {"op": "reload"}]}
            k2 = {"alone": 0, "lockheld": 3, "merging": 4 + initn}[variant]     # call, createexcl, readfile [, table locks, remove(list lock)]
            r["sched"] = [2] * k2 + [1] * 400 + [2] * 400
            r["pre2"] = k2
            scen.append(r)
    dry = P.run_driver(drv, scen, sc)
    runs = []
    for s, o in zip(scen, dry):
        evs = [e for e in o["events"] if e["h"] == 1 and e["ev"] in ("fs", "call") and not (e["ev"] == "fs" and e["op"] == "close")]
        k = 0
        for e in evs:
            if e is evs[0] and e["ev"] == "call" and e["op"] == "open":
                continue            # set-up open (sequential, not gated)
            if e["ev"] == "fs" and k == 0:
                continue            # filesystem calls of the set-up open
            k += 1
            if e["ev"] == "fs" and e["op"] in ("createexcl", "open", "tempfile", "rename", "readfile", "readdir", "write"):
                r = dict(s)
                r["id"] = "%s-k%d" % (s["id"], k)
                r["fault"] = [{"h": 1, "before": k}]
                runs.append(r)
    total = len(runs)
    if n < total:
        keep = [r for r in runs if "-alone-" not in r["id"]]
        rest = [r for r in runs if "-alone-" in r["id"]]
        rnd = random.Random(rng.random())
        if len(keep) > n * 2 // 3:
            keep = rnd.sample(keep, n * 2 // 3)
        runs = keep + rnd.sample(rest, min(len(rest), n - len(keep)))
    return runs, total


def replay(pid, path):
    """Re-run exactly the execution stored in a replay file and report what the validator says."""
    with open(path) as f:
        rp = json.load(f)
    sc = C.mkscratch(pid + "-replay")
    try:
        mod = C.assemble(sc)
        drv = C.gobuild(mod, "drvproto", os.path.join(sc, "drvproto"))
        outs = P.run_driver(drv, [rp["run"]], sc)
        viols, rej, _ = P.validate(outs, sc, jvms=1)
        for e in outs[0]["events"]:
            if e["ev"] == "fs":
                print("h%d %s %s%s -> %s" % (e["h"], e["op"], e["path"], (" -> " + e["to"]) if "to" in e else "", e["res"]))
            else:
                print("h%d %s %s %s" % (e["h"], e["ev"], e.get("op", ""), e.get("res", e.get("names", ""))))
        mine = [v for v in viols if v[0] in P.PROP_INVS[pid]]
        for v in mine:
            print("VIOLATION property=%s replay=%s" % (pid, path))
            print("  %s at event %d" % (v[0], v[2]))
        return 1 if mine else 0
    finally:
        shutil.rmtree(sc, ignore_errors=True)
