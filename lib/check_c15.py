"""C15: the Go and C implementations agree on tables (and stacks).

Both implementations are bound to the SAME specification: for every case (NUL-free names)
  A. the table written by the Go writer is read by the C reader (scan, seeks of every key class, refs_for);
  B. the table written by the C writer from the same records and options is read by the Go reader,
     and decoded by the independent decoder (Layout);
and TLC validates both recorded cases against TraceTable: the expectation is the table semantics, not the
other implementation's output - so a defect shared by both is not masked.  The C code is compiled from
/repo/c on every run."""
import json, os, random, re, shutil, subprocess, time, collections, concurrent.futures as cf
import common as C, store as S, check_table as CT, cside

LEVEL = "translation_validation"
PREFIXES = ["C01_", "C02_", "C11_", "C14_"]


def run(pid, tier, only_cases=None, debug=False):
    t0 = time.time()
    seed = C.seed()
    rng = random.Random(seed * 1000003 + 15)
    sc = C.mkscratch(pid)
    known = C.known_findings().get(pid, {})
    try:
        mod = C.assemble(sc)
        drv = C.gobuild(mod, "drvtable", os.path.join(sc, "drvtable"))
        cdrv = cside.build(sc)
        n = 160 if tier == "quick" else 4000
        cases = [CT.gen_case(rng, "c15-%d" % i, rng.choice(["C01", "C02", "C11"])) for i in range(n)]
        import tablemc
        cases += tablemc.shape_cases("C02", tier, sc, seed)[: (12 if tier == "quick" else 400)]
        # one object referenced from more blocks than fit an object record: the writers omit its position list (D21; the recorded case)
        with open(os.path.join(C.VERIF, "findings", "D21-c-refsfor-omitted-position-list.json")) as f:
            probe = json.load(f)["case"]
        probe = dict(probe, id="omitted-positions")
        cases.append(probe)
        if only_cases is not None:
            cases = only_cases
        for c in cases:
            c["layout"] = False
            if not c["exact"]:
                # the two writers normalise messages differently (Go trims all surrounding white space, C only ensures the
                # trailing newline); C15 is about reading each other's files, so the inputs are kept where both agree
                for l in c["logs"]:
                    if not l.get("del"):
                        l["msg"] = l["msg"].strip()
            for l in c["logs"]:
                # an entry without any information is a deletion in the Go API and an (empty) update in the C API: not comparable
                if not l.get("del") and not (l["old"] or l["new"] or l["user"] or l["email"] or l["time"] or l["tz"] or l["msg"]):
                    l["user"] = "x"
        dump = os.path.join(sc, "gofiles")
        os.makedirs(dump)
        # Go writes (and reads): gives the write event and the files
        chunks = [cases[i:i + 20] for i in range(0, len(cases), 20)]

        def gowrite(i):
            jp, op = os.path.join(sc, "g-%d.json" % i), os.path.join(sc, "go-%d.json" % i)
            with open(jp, "w") as f:
                json.dump(chunks[i], f)
            p = subprocess.run([drv, jp, op, dump], stdout=subprocess.PIPE, stderr=subprocess.STDOUT, text=True, timeout=900)
            if p.returncode != 0:
                raise C.Inconclusive("table driver failed: " + p.stdout[-2000:])
            with open(op) as f:
                return json.load(f)

        with cf.ThreadPoolExecutor(max_workers=16) as ex:
            gouts = [o for res in ex.map(gowrite, range(len(chunks))) for o in res]
        gbyid = {o["id"]: o for o in gouts}

        traces, cfiles = [], {}
        cdir = os.path.join(sc, "cfiles")
        os.makedirs(cdir)

        def cwork(c):
            cid = c["id"]
            wev = gbyid[cid]["events"][0]
            res = []
            gofile = os.path.join(dump, cid + ".ref")
            infile = os.path.join(cdir, cid + ".txt")
            # A: C reads the Go file
            if wev["close"] == "ok" and os.path.exists(gofile):
                rc, lines, err = cside.run(cdrv, "read", c, infile, gofile)
                if rc != 0:
                    res.append({"id": "A-" + cid, "nh": 1, "events": [wev, {"op": "scan", "refs": [], "logs": [], "min": 0, "max": 0, "reuse": "",
                                                                            "err": "C reader crashed (rc=%d): %s" % (rc, err[-300:])}]})
                else:
                    res.append({"id": "A-" + cid, "nh": 1, "events": [wev] + cside.read_events(c, lines)})
            # B: C writes, Go reads
            cfile = os.path.join(cdir, cid + ".ref")
            rc, lines, err = cside.run(cdrv, "write", c, infile, cfile)
            cw = None
            for ln in lines:
                if ln.strip():
                    cw = json.loads(ln)
            if rc != 0 or cw is None:
                res.append({"id": "B-" + cid, "nh": 1, "events": [dict(wev, calls=[dict(k, ok=False) for k in wev["calls"]], close="error",
                                                                        err="C writer crashed (rc=%d): %s" % (rc, err[-300:]))]})
                return res, None
            calls = [dict(k, ok=(cw["calls"][j] == 0)) for j, k in enumerate(wev["calls"])] if len(cw["calls"]) == len(wev["calls"]) else []
            close = "ok" if cw["close"] == 0 else "empty" if cw["close"] == -8 else "error"
            bw = dict(wev, calls=calls, close=close, err="" if close != "error" else "C close: %d" % cw["close"])
            return res, (cid, bw, cfile if close == "ok" else None)

        with cf.ThreadPoolExecutor(max_workers=16) as ex:
            results = list(ex.map(cwork, cases))
        bjobs = []
        bwrite = {}
        for res, b in results:
            traces += res
            if b:
                cid, bw, cfile = b
                bwrite[cid] = bw
                if cfile:
                    c2 = dict([c for c in cases if c["id"] == cid][0])
                    c2["readfile"], c2["layout"], c2["id"] = cfile, True, "B-" + cid
                    bjobs.append(c2)
                else:
                    traces.append({"id": "B-" + cid, "nh": 1, "events": [bw]})
        bouts = CT.run_cases(bjobs, drv, sc) if bjobs else []
        for o in bouts:
            o["events"] = [bwrite[o["id"][2:]]] + o["events"]
            traces.append(o)
        identical = 0
        for c in cases:
            a, b = os.path.join(dump, c["id"] + ".ref"), os.path.join(cdir, c["id"] + ".ref")
            if os.path.exists(a) and os.path.exists(b) and open(a, "rb").read() == open(b, "rb").read():
                identical += 1

        # ---- stack directories, both directions, validated against TraceStore
        sviols, sstats, nstacks = [], dict(events=0), 0
        if only_cases is None:
            sviols, srej, sstats, nstacks = stacks(pid, tier, sc, mod, cdrv, rng)
            if srej:
                raise C.Inconclusive("stack histories rejected by TraceStore: %s" % srej[:3])
        viols, rej, vstats = S.validate(traces, sc, module="TraceTable", chunk=15, jvms=12, debug=debug)
        tbyid = {t["id"]: t for t in traces}
        mine = [v for v in viols if any(v[0].startswith(p) for p in PREFIXES)]
        nviol, seen_known = 0, set()
        bysig = collections.OrderedDict()
        for chk, tid, line in mine:
            sig = "%s:%s" % ("GoWritesCReads" if tid.startswith("A-") else "CWritesGoReads", chk)
            bysig.setdefault(sig, []).append((chk, tid, line))
        cbyid = {c["id"]: c for c in cases}
        for sig, lst in bysig.items():
            if sig in known:
                seen_known.add(sig)
                print("KNOWN-FINDING: property=%s %s (%s)" % (pid, known[sig], sig))
                continue
            lst2 = sorted(lst, key=lambda v: len(cbyid[v[1][2:]]["refs"]) + len(cbyid[v[1][2:]]["logs"]))
            chk, tid, line = lst2[0]
            ev = tbyid[tid]["events"][line - 1]
            path = C.save_replay(pid, "%s-%d" % (sig.replace(":", "-"), seed), {"property": pid, "direction": sig, "line": line, "count": len(lst),
                                                                                 "case": cbyid[tid[2:]], "event": {k: v for k, v in ev.items() if k not in ("blocks", "calls")}})
            print("VIOLATION property=%s replay=%s" % (pid, path))
            c = cbyid[tid[2:]]
            print("  %s: %s failed at event %d (%s) of table %s [%d refs, %d logs, blocksize %s, unaligned %s, %s]; %d tables%s" %
                  (sig.split(":")[0], chk, line, ev.get("op"), tid, len(c["refs"]), len(c["logs"]), c["blocksize"], c["unaligned"], c["hash"], len(lst),
                   ("; " + str(ev.get("err"))[:200]) if ev.get("err") else ""))
            nviol += 1
        for chk, tid, line in sviols[:1]:
            path = C.save_replay(pid, "stack-%s-%d" % (chk, seed), {"property": pid, "check": chk, "trace": tid, "line": line, "count": len(sviols)})
            print("VIOLATION property=%s replay=%s" % (pid, path))
            print("  stack directory %s: %s differs from the specification at step %d (%d failures)" %
                  ("written by Go, read by C" if tid.startswith("SA-") else "written by C, read by Go", chk, line, len(sviols)))
            nviol += 1
        if rej and nviol == 0:
            raise C.Inconclusive("cases rejected by TraceTable: %s" % rej[:3])
        na = sum(1 for t in traces if t["id"].startswith("A-"))
        nb = sum(1 for t in traces if t["id"].startswith("B-"))
        cov = dict(programs=len(traces), disagreements_checked=vstats["events"],
                   samples=[{"case": {k: v for k, v in cases[0].items() if k in ("id", "blocksize", "restart", "unaligned", "hash", "exact", "min", "max")},
                             "refs": cases[0]["refs"][:2], "logs": cases[0]["logs"][:1]}],
                   go_writes_c_reads=na, c_writes_go_reads=nb, byte_identical_files=identical, cases=len(cases),
                   events_validated=vstats["events"] + sstats["events"], known_findings_seen=sorted(seen_known), stack_directories_exchanged=nstacks)
        C.write_evidence(pid, tier, LEVEL, cov, time.time() - t0, nviol,
                         assumptions=["names NUL-free (C strings)", "the C code is compiled with gcc and the system zlib from /repo/c",
                                      "stack directories: single-writer histories (Add, CompactAll) written by one implementation, final merged view read by the other"])
        print("%s %s: %d cases, %d Go->C, %d C->Go, %d byte-identical, %d violations, %.1fs" % (pid, tier, len(cases), na, nb, identical, nviol, time.time() - t0))
        return 1 if nviol else 0
    finally:
        shutil.rmtree(sc, ignore_errors=True)


def replay(pid, path):
    with open(path) as f:
        rp = json.load(f)
    return run(pid, "quick", only_cases=[rp["case"]], debug=True)



def stacks(pid, tier, sc, mod, cdrv, rng):
    """SA: a history executed by the Go stack, the directory then opened by the C stack (merged view);
    SB: the same kind of history executed by the C stack (reftable_stack_add / compact_all), the directory then opened by Go.
    Both final views must be the view Store.tla computes from the transactions (TraceStore, tag C15)."""
    import check_store as CS
    drvs = C.gobuild(mod, "drvstore", os.path.join(sc, "drvstore"))
    n = 40 if tier == "quick" else 600
    hists = []
    for i in range(n):
        g = S.HistGen(rng, rng.sample(S.NAMES_PLAIN[:9] + ["refs/heads/zz"], rng.randint(2, 6)))
        g.cfg["skipnamecheck"] = False
        g.steps.append({"op": "open", "h": 1})
        for t in range(rng.randint(1, 7) if i % 2 == 0 else rng.randint(4, 9)):
            p = g.part()
            if t == 0:
                # an anchor ref that is never touched again: the stack never becomes empty, so update indices never restart
                # (the C writer's automatic compactions are not observed step by step)
                p["refs"] = [r for r in p["refs"] if r["n"] != "refs/anchor"] + [{"n": "refs/anchor", "v": ["v", "A", ""]}]
                if i % 2:
                    # a large table at the bottom: the automatic compactions of the small ones above it do not start at table 0
                    p["refs"] += [{"n": "refs/bulk/%03d" % j, "v": ["v", "B", ""]} for j in range(40)]
            for l in p["logs"]:
                if not l.get("del"):
                    l["msg"] = l["msg"].strip() if not g.cfg["exact"] else l["msg"]
                    if not (l["old"] or l["new"] or l["user"] or l["email"] or l["time"] or l["tz"] or l["msg"]):
                        l["user"] = "x"
            # conflicting names (refs/heads/b vs refs/heads/b/x) are judged alike by both; keep them
            g.add(part=p, auto=True)
            if rng.random() < 0.2:
                g.steps.append({"op": "compact", "h": 1, "all": True})
        hists.append(g)
    traces = []
    # ---- SA: Go writes
    goh = []
    for i, g in enumerate(hists):
        h = g.history("SA-%d" % i)
        h["dir"] = os.path.join(sc, "gostack-%d" % i)
        h["nh"] = 2
        goh.append(h)
    gouts = S.run_driver(drvs, goh, sc)
    for h, o in zip(goh, gouts):
        rk = {n: i + 1 for i, n in enumerate(o["strs"])}
        inf = os.path.join(sc, h["id"] + ".txt")
        with open(inf, "w") as f:
            f.write(cside.stack_input(h, False))
        p = subprocess.run([cdrv, "stackread", inf, h["dir"]], stdout=subprocess.PIPE, stderr=subprocess.PIPE, text=True, timeout=120)
        lines = [l for l in p.stdout.split("\n") if l.strip()]
        shape = [e for e in o["events"] if "dirshape" in e][-1]["dirshape"] if any("dirshape" in e for e in o["events"]) else []
        ev = list(o["events"])
        if p.returncode != 0 or not lines or '"view"' not in lines[-1]:
            ev += [{"op": "open", "h": 2, "res": "other", "shape": shape, "err": "C stack reader failed rc=%d %s" % (p.returncode, p.stderr[-200:])}]
        else:
            ev += [{"op": "open", "h": 2, "res": "ok", "shape": shape}, cside.stack_view_event(rk, lines[-1], 2)]
        traces.append({"id": h["id"], "nh": 2, "names": o["names"], "strs": o["strs"], "events": ev})
        shutil.rmtree(h["dir"], ignore_errors=True)
    # ---- SB: C writes
    for i, g in enumerate(hists):
        h = g.history("SB-%d" % i)
        d = os.path.join(sc, "cstack-%d" % i)
        os.makedirs(d)
        inf = os.path.join(sc, h["id"] + ".txt")
        with open(inf, "w") as f:
            f.write(cside.stack_input(h, True))
        p = subprocess.run([cdrv, "stackwrite", inf, d], stdout=subprocess.PIPE, stderr=subprocess.PIPE, text=True, timeout=120)
        lines = [json.loads(l) for l in p.stdout.split("\n") if l.strip()]
        crc = [l for l in lines if l["op"] in ("add", "compact")]
        # the Go run of the same history supplies the model-level records of every transaction (expected normalised content)
        go_events = [e for e in gouts[i]["events"] if e["op"] in ("add", "compact")]
        ev = [{"op": "open", "h": 1, "res": "ok", "shape": []}]
        ok = p.returncode == 0 and len(crc) == len(go_events)
        if ok:
            for ge, ce in zip(go_events, crc):
                if ge["op"] == "add":
                    res = "ok" if ce["rc"] == 0 else "rejected" if ce["rc"] in (-9, -10) else "lock" if ce["rc"] == -5 else "other"
                    ev.append(dict(ge, res=res, dirshape=[], auto=False, foreign=True, rc=ce["rc"]))
                else:
                    ev.append(dict(ge, res="ok" if ce["rc"] == 0 else "other", dirshape=[]))
        # Go opens the C-written directory
        rd = {"id": "SBr-%d" % i, "nh": 2, "cfg": h["cfg"], "universe": gouts[i]["strs"], "dir": d,
              "steps": [{"op": "open", "h": 2}, {"op": "view", "h": 2, "tag": "C15", "hasraw": False}]}
        ro = S.run_driver(drvs, [rd], sc)[0]
        if not ok:
            ev.append({"op": "open", "h": 2, "res": "other", "shape": [], "err": "C stack writer failed rc=%d %s" % (p.returncode, p.stderr[-200:])})
        else:
            ev += ro["events"]
        traces.append({"id": h["id"], "nh": 2, "names": gouts[i]["names"], "strs": gouts[i]["strs"], "events": ev})
        shutil.rmtree(d, ignore_errors=True)
    viols, rej, stats = S.validate(traces, sc, module="TraceStore", chunk=10, jvms=12, debug=bool(os.environ.get("VERIF_DEBUG")))
    mine = [v for v in viols if v[0].startswith("C15_") or v[0] in ("C10_OpenFails", "C10_Readable")]
    return mine, rej, stats, len(traces)
