"""Exhaustive TLC jobs on StoreMC / NamesMC and export of simulated behaviours as histories."""
import json, os, random, re, shutil
import common as C, store as S

VALS = '{<<"d","","">>, <<"v","A","">>, <<"v","B","">>, <<"p","A","B">>, <<"s","x","">>}'
NAMES7 = '{<<"a">>, <<"a","b">>, <<"a","b","c">>, <<"a","c">>, <<"b">>, <<"a","","b">>, <<"a",".">>}'


def store_cfg(nk, vals, times, maxtabs, maxsteps, expiries, maxrefs, props):
    """returns (wrapper module text, cfg text): tuples/records cannot be written in a .cfg file"""
    mod = "---- MODULE MCJob ----\nEXTENDS StoreMC\nMC_RefVals == %s\nMC_Times == %s\nMC_Expiries == %s\n====\n" % (vals, times, expiries)
    t = "SPECIFICATION Spec\nCONSTANTS\n  NK = %d\n  RefVals <- MC_RefVals\n  Times <- MC_Times\n  MaxTabs = %d\n  MaxSteps = %d\n  Expiries <- MC_Expiries\n  MaxRefs = %d\n" % (
        nk, maxtabs, maxsteps, maxrefs)
    t += "VIEW view\nCHECK_DEADLOCK FALSE\nINVARIANTS\n  WellFormedStack\n  SeekIsSuffix\n"
    if props:
        t += "PROPERTIES\n" + "".join("  %s\n" % p for p in props)
    return (mod, t)


def merged_cfg(nkeys, vals, maxtabs):
    mod = "---- MODULE MCJob ----\nEXTENDS Merged\nMC_Vals == %s\n====\n" % vals
    t = ("SPECIFICATION Spec\nCONSTANTS\n  NKeys = %d\n  Vals <- MC_Vals\n  MaxTabs = %d\nCHECK_DEADLOCK FALSE\nINVARIANTS\n  C03_AlgIsOverlay\n  C03_HeapInvariant\n"
         % (nkeys, maxtabs))
    return (mod, t)


def names_cfg(names, maxtxn, invs=True):
    mod = "---- MODULE MCJob ----\nEXTENDS NamesMC\nMC_Names == %s\n====\n" % names
    t = "SPECIFICATION Spec\nCONSTANTS\n  Names <- MC_Names\n  MaxTxn = %d\nVIEW view\nCHECK_DEADLOCK FALSE\n" % maxtxn
    if invs:
        t += "INVARIANTS\n  C12_NoConflict\n  C12_RuleIffMeaning\n"
    return (mod, t)


EXP5 = '{[time |-> 0, min |-> 0, max |-> 0], [time |-> 2, min |-> 0, max |-> 0], [time |-> 0, min |-> 2, max |-> 0], [time |-> 0, min |-> 0, max |-> 2], [time |-> 2, min |-> 2, max |-> 3], [time |-> 3, min |-> 0, max |-> 1]}'

JOBS = {
    "quick": {
        "C07": [("StoreMC", store_cfg(2, '{<<"d","","">>, <<"v","A","">>, <<"v","B","">>}', "{1}", 3, 4, "{}", 2, ["C07_CompactionInvisible", "C07_TombstonesKept"]))],
        "C13": [("StoreMC", store_cfg(1, '{<<"v","A","">>}', "{1, 2, 3}", 3, 4, EXP5, 1, ["C13_ExpiryExact"]))],
        "C12": [("NamesMC", names_cfg(NAMES7, 2))],
        "C03": [("StoreMC", store_cfg(2, '{<<"d","","">>, <<"v","A","">>}', "{1}", 3, 3, "{}", 2, ["C07_CompactionInvisible"])),
                ("Merged", merged_cfg(2, '{"a", "b", ""}', 3))],
        "C09": [], "C11": [], "C16": [],
    },
    "thorough": {
        # measured: 2.5 M and 3.8 M distinct states, 4-6 min each with 12 workers (one more table or step: > 10^8 states)
        "C07": [("StoreMC", store_cfg(2, VALS, "{1}", 3, 4, "{}", 2, ["C07_CompactionInvisible", "C07_TombstonesKept"])),
                ("StoreMC", store_cfg(2, '{<<"d","","">>, <<"v","A","">>, <<"v","B","">>}', "{1}", 3, 5, "{}", 2, ["C07_CompactionInvisible", "C07_TombstonesKept"]))],
        "C13": [("StoreMC", store_cfg(2, '{<<"v","A","">>}', "{1, 2, 3}", 3, 5, EXP5, 1, ["C13_ExpiryExact", "C07_CompactionInvisible"]))],
        "C12": [("NamesMC", names_cfg(NAMES7, 3))],
        "C03": [("StoreMC", store_cfg(3, '{<<"d","","">>, <<"v","A","">>, <<"v","B","">>}', "{1}", 3, 4, "{}", 2, ["C07_CompactionInvisible"])),
                ("Merged", merged_cfg(3, '{"a", "b", ""}', 3)), ("Merged", merged_cfg(2, '{"a", "b", ""}', 4))],
        "C09": [], "C11": [], "C16": [],
    },
}


def exhaustive(pid, tier, sc):
    res = []
    for i, (module, cfg) in enumerate(JOBS[tier].get(pid, [])):
        sd = os.path.join(sc, "smc-%d" % i)
        shutil.copytree(os.path.join(C.VERIF, "spec"), sd)
        with open(os.path.join(sd, "mc.cfg"), "w") as f:
            f.write(cfg[1])
        with open(os.path.join(sd, "MCJob.tla"), "w") as f:
            f.write(cfg[0])
        r = C.tlc(sd, "MCJob", "mc.cfg", sc, workers=6 if tier == "quick" else 12, timeout=200 if tier == "quick" else 2400,
                  heap="8g" if tier == "quick" else "24g")
        r["name"] = module
        res.append(r)
        shutil.rmtree(sd, ignore_errors=True)
    return res


def hist_of_text(text):
    m = None
    for m in re.finditer(r"/\\ hist = ((?:.|\n)*?)(?=\n/\\ |\n\n|\nSTATE|\n=+|\Z)", text):
        pass
    if not m:
        return None
    try:
        return C.parse_tla_value(m.group(1).strip())
    except Exception:
        return None


def concretise_store(hist, rng, hid, nk):
    names = sorted(rng.sample(S.NAMES_PLAIN, nk))
    cfg = S.fix_cfg(S.rand_cfg(rng))
    steps = [{"op": "open", "h": 1}]
    for a in hist:
        if a["op"] == "add":
            refs = [{"n": names[r[0] - 1], "v": list(r[2])} for r in a["refs"]]
            logs = []
            for l in a["logs"]:
                if l[2] == "":
                    logs.append({"n": names[l[0] - 1], "i": l[1], "del": True})
                else:
                    logs.append({"n": names[l[0] - 1], "i": 0, "del": False, "old": "A", "new": "B", "user": "u", "email": "e", "time": l[3], "tz": 0, "msg": "m"})
            steps.append({"op": "add", "h": 1, "parts": [{"refs": refs, "logs": logs}], "multi": False, "auto": False})
            steps.append({"op": "disk", "h": 1, "after": "add"})
            steps.append({"op": "view", "h": 1, "tag": "C07", "hasraw": True})
        elif a["op"] == "compact":
            steps.append({"op": "compact", "h": 1, "first": a["first"], "last": a["last"]})
            steps.append({"op": "disk", "h": 1, "after": "compact"})
            steps.append({"op": "view", "h": 1, "tag": "C07", "hasraw": True})
        elif a["op"] == "expire":
            steps.append({"op": "compact", "h": 1, "all": True, "expiry": a["e"]})
            steps.append({"op": "disk", "h": 1, "after": "compact"})
            steps.append({"op": "view", "h": 1, "tag": "C13", "hasraw": False})
    return {"id": hid, "nh": 1, "cfg": cfg, "universe": [], "steps": steps}


def concretise_names(hist, rng, hid):
    cfg = S.fix_cfg(S.rand_cfg(rng))
    steps = [{"op": "open", "h": 1}]
    for a in hist:
        adds = [("/".join(n), ["v", "A", ""]) for n in a["adds"]["#set"]]
        dels = [("/".join(n), ["d", "", ""]) for n in a["dels"]["#set"]]
        refs = [{"n": n, "v": v} for n, v in sorted(adds + dels)]
        if any(r["n"] == "" for r in refs):
            continue
        steps.append({"op": "add", "h": 1, "parts": [{"refs": refs, "logs": []}], "multi": False, "auto": False})
        steps.append({"op": "view", "h": 1, "tag": "C12", "hasraw": False})
    return {"id": hid, "nh": 1, "cfg": cfg, "universe": [], "steps": steps}


U7 = [("a",), ("a", "b"), ("a", "b", "c"), ("a", "c"), ("b",), ("a", "", "b"), ("a", ".")]


def names_cover(tier, seed):
    """Direction A for C12, systematic: EVERY (set of live names, transaction of at most two records) pair of the
    NamesMC universe as an execution of the real stack - the transition relation of NamesMC, one test per transition.
    The packing below predicts which transactions are refused (they leave the state alone, so they share a history);
    the verdict is TLC's (TraceStore), not this prediction: a wrong prediction only costs coverage."""
    import itertools
    rng = random.Random(seed)
    wf = [n for n in U7 if all(c not in ("", ".", "..") for c in n)]

    def conflict(names):
        return any(a != b and b[:len(a)] == a for a in names for b in names)
    lives = [set(c) for k in range(0, 4) for c in itertools.combinations(wf, k) if not conflict(set(c))]
    txns = []
    for k in (1, 2):
        for names in itertools.combinations(U7, k):
            for kinds in itertools.product("ad", repeat=k):
                txns.append(list(zip(names, kinds)))

    def step(txn):
        refs = [{"n": "/".join(n), "v": ["v", "A", ""] if kd == "a" else ["d", "", ""]} for n, kd in sorted(txn)]
        return [{"op": "add", "h": 1, "parts": [{"refs": refs, "logs": []}], "multi": False, "auto": False},
                {"op": "view", "h": 1, "tag": "C12", "hasraw": False}]

    def setup(live):
        st = [{"op": "open", "h": 1}]
        for n in sorted(live):
            st += step([(n, "a")])
        return st
    hists, shorts = [], []
    for li, live in enumerate(lives):
        refused, accepted = [], []
        for t in txns:
            adds = {n for n, kd in t if kd == "a"}
            dels = {n for n, kd in t if kd == "d"}
            after = (live - dels) | adds
            (accepted if all(n in wf for n in adds) and not conflict(after) else refused).append(t)
        cfg = S.fix_cfg(S.rand_cfg(rng))
        cfg["skipnamecheck"] = False
        steps = setup(live)
        for t in refused:
            steps += step(t)
        hists.append({"id": "cover-C12-L%d-refused" % li, "nh": 1, "cfg": cfg, "universe": [], "steps": steps})
        for ti, t in enumerate(accepted):
            shorts.append({"id": "cover-C12-L%d-t%d" % (li, ti), "nh": 1, "cfg": cfg, "universe": [], "steps": setup(live) + step(t)})
    total = len(lives) * len(txns)
    return hists + shorts, total


WALKS = {
    "quick": {"C07": 60, "C13": 60, "C12": 60, "C03": 40, "C09": 0, "C11": 0},
    "thorough": {"C07": 1500, "C13": 1500, "C12": 1500, "C03": 800, "C09": 0, "C11": 0},
}


def walk_histories(pid, tier, sc, seed):
    n = WALKS[tier].get(pid, 0)
    jobs = JOBS[tier].get(pid, [])
    if not n or not jobs:
        return []
    module, cfg = jobs[0]
    # walks use a richer universe than the exhaustive job of the same tier
    if module == "StoreMC":
        if pid == "C13":
            cfg = store_cfg(2, '{<<"v","A","">>, <<"d","","">>}', "{1, 2, 3}", 4, 7, EXP5, 1, [])
        else:
            cfg = store_cfg(3, VALS, "{1, 2}", 5, 9, "{}", 3, [])
    else:
        cfg = names_cfg(NAMES7, 3, invs=False)
    cfg = (cfg[0], re.sub(r"INVARIANTS(.|\n)*", "", cfg[1]))
    sd = os.path.join(sc, "swalk")
    shutil.copytree(os.path.join(C.VERIF, "spec"), sd)
    with open(os.path.join(sd, "walk.cfg"), "w") as f:
        f.write(cfg[1])
    with open(os.path.join(sd, "MCJob.tla"), "w") as f:
        f.write(cfg[0])
    os.makedirs(os.path.join(sd, "sim"))
    depth = 8 if module == "NamesMC" else 10
    r = C.tlc(sd, "MCJob", "walk.cfg", sc, workers=1, timeout=600, heap="3g", simulate="file=sim/w,num=%d" % n,
              extra=["-depth", str(depth), "-seed", str(seed)], small=True)
    hists = []
    rng = random.Random(seed)
    for i, fn in enumerate(sorted(os.listdir(os.path.join(sd, "sim")))):
        with open(os.path.join(sd, "sim", fn)) as f:
            h = hist_of_text(f.read())
        if not h:
            continue
        if module == "StoreMC":
            hists.append(concretise_store(h, rng, "tlc-%s-%d" % (pid, i), 3))
        else:
            hists.append(concretise_names(h, rng, "tlc-%s-%d" % (pid, i)))
    shutil.rmtree(sd, ignore_errors=True)
    if not hists:
        raise C.Inconclusive("TLC simulation produced no behaviours:\n" + r["out"][-2000:])
    return hists
