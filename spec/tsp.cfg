SPECIFICATION TSpec
CONSTANTS
  TraceFile = "ptraces.json"
  Handles = {0, 1, 2, 3, 4}
  MaxOps = 100000
  MaxIds = 100000
  InitN = 0
  OpKinds = {"add", "autoadd", "refused", "addition", "abort", "empty", "compactall", "compactrange", "autocompact", "reload", "reopen", "open", "close", "read", "clean"}
  ReaderHandles = {}
  ReaderOps = {}
  ReaderMaxOps = 0
  CrashOn = TRUE
  FixRelockOwner = TRUE
  FixRebase = TRUE
  FixTmpCleanup = TRUE
  FixReuseClose = TRUE
  FixCleanEnoent = TRUE
CHECK_DEADLOCK FALSE
INVARIANT HWInv
POSTCONDITION Report
