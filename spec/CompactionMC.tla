---------------------------- MODULE CompactionMC ----------------------------
(***************************************************************************)
(* (i)  every size vector up to length MaxLen over representative sizes is  *)
(*      an initial state; the C17 guarantees are invariants of it.          *)
(* (ii) the game: a single writer adds N transactions whose tables all have *)
(*      size Unit; after each Add at most one suggested range is merged,    *)
(*      the merged table of m transactions having size A*m + B.  The depth  *)
(*      and the number of entries rewritten stay within the C17 bounds.     *)
(***************************************************************************)
EXTENDS Compaction

CONSTANTS Reps, MaxLen, Mode, N, Unit, A, B

VARIABLES sizes, counts, n, rewritten
vars == <<sizes, counts, n, rewritten>>

InitVec == /\ sizes \in UNION {[1..k -> Reps] : k \in 0..MaxLen}
           /\ counts = <<>> /\ n = 0 /\ rewritten = 0
InitGame == sizes = <<>> /\ counts = <<>> /\ n = 0 /\ rewritten = 0
Init == IF Mode = "vectors" THEN InitVec ELSE InitGame

Sum(s) == FoldLeft(LAMBDA a, b : a + b, 0, s)

(* one Add followed by AutoCompact *)
Play ==
  /\ Mode = "game" /\ n < N
  /\ LET s1 == Append(sizes, Unit)  c1 == Append(counts, 1)
         sg == Suggest(s1) IN
     IF sg = None THEN sizes' = s1 /\ counts' = c1 /\ UNCHANGED rewritten
     ELSE LET m == Sum(SubSeq(c1, sg.start + 1, sg.end)) IN
          /\ sizes' = Apply(s1, sg, A * m + B)
          /\ counts' = Apply(c1, sg, m)
          /\ rewritten' = rewritten + m
  /\ n' = n + 1
Next == Play
Spec == Init /\ [][Next]_vars

(* (i) *)
C17_ValidRange == Mode = "vectors" => ValidRange(sizes, Suggest(sizes))
C17_NothingIffNoPair == Mode = "vectors" => NothingIffNoPair(sizes, Suggest(sizes))
C17_LowestRun == Mode = "vectors" => LowestRun(sizes, Suggest(sizes))
(* (ii)  depth <= 2*log2(n)  <=>  2^depth <= n^2 ;  rewritten <= n * ceil(log2 n) *)
CeilLog2(k) == IF k <= 1 THEN 0 ELSE Log2(k - 1) + 1
C17_Shallow == (Mode = "game" /\ n >= 2) => Pow2(Len(sizes)) <= n * n
C17_RewriteBound == (Mode = "game" /\ n >= 2) => rewritten <= n * CeilLog2(n)
C17_Conserved == Mode = "game" => Sum(counts) = n
=============================================================================
