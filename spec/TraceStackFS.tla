---------------------------- MODULE TraceStackFS ----------------------------
(***************************************************************************)
(* Validation of filesystem traces recorded from the real stack code       *)
(* against StackFS.  Every recorded trace is one behaviour starting in its *)
(* own initial state (tr = index of the trace); every event must be        *)
(* explained by the StackFS operator of the same name with the logged      *)
(* arguments, and the logged result of every filesystem call must be the   *)
(* result the model predicts (otherwise the trace is REJECTED: TLC reports *)
(* a deadlock at that line - the recorder or the filesystem model is       *)
(* wrong, never the code under test).  The property predicates of StackFS  *)
(* are INVARIANTS: TLC evaluates them after every single event.            *)
(***************************************************************************)
EXTENDS StackFS, Json

CONSTANT TraceFile
Traces == JsonDeserialize(TraceFile)

VARIABLES
  tr,       \* which trace
  l,        \* next line of that trace
  fds,      \* [descriptor id -> inode]
  txnRecs,  \* [transaction id -> the ref updates it makes, a Seq of <<name, value>>; "" = deletion]
  obs       \* the last observation (a view read through a handle)

tvars == <<tr, l, fds, txnRecs, obs>>
vars == <<fsvars, tvars>>

Ev   == Traces[tr].events
E    == Ev[l]
NH   == Traces[tr].nh

NoObs == [kind |-> "none"]

TInit ==
  /\ tr \in 1..Len(Traces) /\ l = 1
  /\ dir = <<>> /\ ino = <<>> /\ lver = {<<>>} /\ committed = <<>> /\ cmarks = {}
  /\ lastRead = [h \in 0..NH |-> <<>>] /\ tabHist = <<>> /\ viol = {}
  /\ pending = [h \in 0..NH |-> NoCall] /\ acked = {} /\ failed = {} /\ crashed = {}
  /\ fds = <<>> /\ txnRecs = <<>> /\ obs = NoObs

Put(f, k, v) == [x \in DOMAIN f \cup {k} |-> IF x = k THEN v ELSE f[x]]

IsFs(op) == l <= Len(Ev) /\ E.ev = "fs" /\ E.op = op
Step == l' = l + 1 /\ UNCHANGED tr
KeepT == UNCHANGED <<fds, txnRecs>> /\ obs' = NoObs

(* table content as logged by the recorder (decoded by the independent decoder) *)
TabOf(t) == [min |-> t.min, max |-> t.max, txns |-> t.marks, hash |-> t.hash, refs |-> t.refs]

-----------------------------------------------------------------------------
TCreateExcl ==
  /\ IsFs("createexcl") /\ E.res = CreateExclRes(E.path)
  /\ IF E.res = "ok" THEN FsCreate(E.h, E.path, KFile) /\ fds' = Put(fds, E.fd, Len(ino) + 1)
                     ELSE FsNop /\ UNCHANGED fds
  /\ ApiUnch /\ UNCHANGED txnRecs /\ obs' = NoObs /\ Step

TTempFile ==
  /\ IsFs("tempfile") /\ E.res = "ok" /\ ~Exists(E.path)
  /\ FsCreate(E.h, E.path, KTmp) /\ fds' = Put(fds, E.fd, Len(ino) + 1)
  /\ ApiUnch /\ UNCHANGED txnRecs /\ obs' = NoObs /\ Step

(* open for writing: create / createtrunc / opentrunc / openwrite *)
TOpenWrite ==
  /\ l <= Len(Ev) /\ E.ev = "fs" /\ E.op \in {"create", "createtrunc", "opentrunc", "openwrite"}
  /\ LET creat == E.op \in {"create", "createtrunc"}
         trunc == E.op \in {"createtrunc", "opentrunc"} IN
     IF Exists(E.path)
     THEN /\ E.res = "ok"
          /\ IF trunc THEN FsTruncate(E.h, E.path, E.pk) ELSE FsNop
          /\ fds' = Put(fds, E.fd, dir[E.path])
     ELSE IF creat
     THEN /\ E.res = "ok" /\ FsCreate(E.h, E.path, KFile) /\ fds' = Put(fds, E.fd, Len(ino) + 1)
     ELSE /\ E.res = "ENOENT" /\ FsNop /\ UNCHANGED fds
  /\ ApiUnch /\ UNCHANGED txnRecs /\ obs' = NoObs /\ Step

TOpenRead ==
  /\ l <= Len(Ev) /\ E.ev = "fs" /\ E.op \in {"open", "stat"} /\ E.res = ExistRes(E.path)
  /\ FsNop /\ ApiUnch /\ KeepT /\ Step

TReadFile ==
  /\ IsFs("readfile") /\ E.res = ExistRes(E.path)
  /\ IF E.pk = PKList
     THEN /\ E.names = ListNames          \* what the code read is what the model says the list holds
          /\ FsReadList(E.h)
     ELSE FsNop
  /\ ApiUnch /\ KeepT /\ Step

TReadDir ==
  /\ IsFs("readdir") /\ E.res = "ok"
  /\ E.n = Cardinality(DOMAIN dir)
  /\ FsNop /\ ApiUnch /\ KeepT /\ Step

TWrite ==
  /\ IsFs("write") /\ E.res = "ok" /\ E.fd \in DOMAIN fds
  /\ IF E.pk \in {PKLock, PKList, PKTabLock} THEN FsWriteNames(E.h, fds[E.fd], E.names) ELSE FsNop
  /\ ApiUnch /\ KeepT /\ Step

TClose ==
  /\ IsFs("close")
  /\ IF E.sealed /\ E.fd \in DOMAIN fds THEN FsSealTable(fds[E.fd], TabOf(E.tab)) ELSE FsNop
  /\ ApiUnch /\ KeepT /\ Step

TRename ==
  /\ IsFs("rename") /\ E.res = ExistRes(E.path)
  /\ IF E.res # "ok" THEN FsNop
     ELSE IF E.to = LIST THEN FsCommit(E.h, E.path)
     ELSE FsRename(E.h, E.path, E.pk, E.to, E.pk2)
  /\ ApiUnch /\ KeepT /\ Step

TRemove ==
  /\ IsFs("remove") /\ E.res = ExistRes(E.path)
  /\ IF E.res = "ok" THEN FsRemove(E.h, E.path, E.pk) ELSE FsNop
  /\ ApiUnch /\ KeepT /\ Step

(* An injected fault: the call was NOT performed, the process saw an I/O error (EIO, EMFILE, ENOSPC as one   *)
(* process sees them).  Nothing changes in the directory; what the code does next is what is being examined.  *)
TFault ==
  /\ l <= Len(Ev) /\ E.ev = "fs" /\ E.res = "EIO"
  /\ FsNop /\ ApiUnch /\ KeepT /\ Step

-----------------------------------------------------------------------------
TCall ==
  /\ l <= Len(Ev) /\ E.ev = "call"
  /\ pending[E.h] = NoCall
  /\ FsCall(E.h, [op |-> E.op, txn |-> E.txn, marks |-> Range(E.marks), norecs |-> (E.txn # 0 /\ E.recs = <<>>)])
  /\ txnRecs' = IF E.txn # 0 THEN Put(txnRecs, E.txn, E.recs) ELSE txnRecs
  /\ FsNop /\ UNCHANGED fds /\ obs' = NoObs /\ Step

TReturn ==
  /\ l <= Len(Ev) /\ E.ev = "ret"
  /\ pending[E.h] # NoCall
  /\ FsReturn(E.h, E.res)
  /\ viol' = viol \cup ReturnViol(E.h, E.res)
  /\ UNCHANGED <<dir, ino, lver, committed, cmarks, lastRead, tabHist>>
  /\ KeepT /\ Step

TView ==
  /\ l <= Len(Ev) /\ E.ev = "view"
  /\ obs' = [kind |-> "view", h |-> E.h, names |-> E.names, ok |-> E.ok,
             refs |-> Range(E.refs), final |-> E.final, uptodate |-> E.uptodate]
  /\ FsNop /\ ApiUnch /\ UNCHANGED <<fds, txnRecs>> /\ Step

(* the driver gave up on a handle that kept issuing filesystem calls without ever returning *)
TStuck ==
  /\ l <= Len(Ev) /\ E.ev = "stuck"
  /\ viol' = viol \cup {"C10_CallNeverReturns"}
  /\ UNCHANGED <<dir, ino, lver, committed, cmarks, lastRead, tabHist>>
  /\ ApiUnch /\ KeepT /\ Step

TCrash ==
  /\ l <= Len(Ev) /\ E.ev = "crash"
  /\ FsCrash(E.h) /\ FsNop /\ KeepT /\ Step

TDone == l > Len(Ev) /\ UNCHANGED vars     \* the whole trace was consumed

TNext == \/ TCreateExcl \/ TTempFile \/ TOpenWrite \/ TOpenRead \/ TReadFile \/ TReadDir
         \/ TWrite \/ TClose \/ TRename \/ TRemove \/ TFault
         \/ TCall \/ TReturn \/ TView \/ TCrash \/ TStuck \/ TDone

TSpec == TInit /\ [][TNext]_vars

-----------------------------------------------------------------------------
(* content-level meaning of a sequence of tables / of a sequence of committed transactions *)
Overlay(seqOfRecSeqs) ==
  LET K == DOMAIN seqOfRecSeqs
      NamesOf(k) == {e[1] : e \in Range(seqOfRecSeqs[k])}
      All == UNION {NamesOf(k) : k \in K}
      Top(n) == CHOOSE k \in K : n \in NamesOf(k) /\ \A j \in K : n \in NamesOf(j) => j <= k
      \* within one record sequence the LAST entry for a name wins
      ValIn(k, n) == LET s == seqOfRecSeqs[k]
                         i == CHOOSE i \in DOMAIN s : s[i][1] = n /\ \A j \in DOMAIN s : s[j][1] = n => j <= i
                     IN s[i][2]
  IN {<<n, ValIn(Top(n), n)>> : n \in All}
Live(pairs) == {e \in pairs : e[2] # ""}

KnownNames(names) == \A k \in DOMAIN names : names[k] \in DOMAIN tabHist
ViewOfNames(names) == Live(Overlay([k \in DOMAIN names |-> tabHist[names[k]].refs]))
ViewOfCommitted    == Live(Overlay([k \in DOMAIN committed |-> txnRecs[committed[k]]]))

(* C10: what a handle holds after any completed call is exactly one version *)
(* of tables.list, every table of it is readable, and the merged view read  *)
(* through the handle is the content of that version                        *)
C10_OneVersion == obs.kind = "view" => obs.names \in lver
C10_Readable   == obs.kind = "view" => obs.ok
C10_Content    == (obs.kind = "view" /\ obs.ok /\ KnownNames(obs.names)) => obs.refs = ViewOfNames(obs.names)

(* C04: the state seen by a handle opened afterwards is the result of       *)
(* applying all committed transactions in commit order                      *)
C04_FinalView == (obs.kind = "view" /\ obs.final) =>
                    /\ obs.ok /\ obs.names = ListNames
                    /\ obs.refs = ViewOfCommitted

(* C09: after a failed Add the handle has been refreshed *)
C09_Refreshed == (obs.kind = "view" /\ obs.uptodate = "must") => obs.names = ListNames

-----------------------------------------------------------------------------
(* The invariants as configured: a violated predicate prints which trace and *)
(* which line, so that all violating traces of a batch are found in one run  *)
(* (-continue).                                                              *)
Check(name, cond) == cond \/ (PrintT(<<"VIOL", name, Traces[tr].id, l - 1>>) /\ FALSE)
T_C04_NoLostNoPhantom   == Check("C04_NoLostNoPhantom", C04_NoLostNoPhantom)
T_C04_AckIffCommitted   == Check("C04_AckIffCommitted", C04_AckIffCommitted)
T_C04_AckedIsCommitted  == Check("C04_AckedIsCommitted", acked \subseteq Range(committed))    \* the half of C04_AckIffCommitted that holds under injected faults too
T_C04_OneAtATime        == Check("C04_OneAtATime", C04_OneAtATime)
T_C04_OnlyLockFailures  == Check("C04_OnlyLockFailures", C04_OnlyLockFailures)
T_C04_FinalView         == Check("C04_FinalView", C04_FinalView)
T_C05_ListIntegrity     == Check("C05_ListIntegrity", C05_ListIntegrity)
T_C05_NoGc              == Check("C05_NoGc", C05_NoGc)
T_C06_Atomic            == Check("C06_Atomic", C06_Atomic)
T_C08_OwnerOnly         == Check("C08_OwnerOnly", C08_OwnerOnly)
T_C09_StaleNeverCommits == Check("C09_StaleNeverCommits", C09_StaleNeverCommits)
T_C09_Refreshed         == Check("C09_Refreshed", C09_Refreshed)
T_C10_OneVersion        == Check("C10_OneVersion", C10_OneVersion)
T_C10_Readable          == Check("C10_Readable", C10_Readable)
T_C10_Content           == Check("C10_Content", C10_Content)
T_C10_Terminates        == Check("C10_Terminates", "C10_CallNeverReturns" \notin viol)
T_C16_IdleOwnsNothing   == Check("C16_IdleOwnsNothing", C16_IdleOwnsNothing)
T_C16_QuiescentDir      == Check("C16_QuiescentDir", C16_QuiescentDir)
T_C16_GcSucceeds        == Check("C16_GcSucceeds", C16_GcSucceeds)

(* All of them in one invariant whose evaluation cannot short-circuit (TLC   *)
(* stops at the first violated invariant of a state, which would mask the    *)
(* others): a set enumeration evaluates every element.                       *)
T_AllPlain == {T_C04_NoLostNoPhantom, T_C04_AckIffCommitted, T_C04_AckedIsCommitted, T_C04_OneAtATime, T_C04_OnlyLockFailures, T_C04_FinalView,
          T_C05_ListIntegrity, T_C05_NoGc, T_C06_Atomic, T_C08_OwnerOnly, T_C09_StaleNeverCommits, T_C09_Refreshed,
          T_C10_OneVersion, T_C10_Readable, T_C10_Content, T_C10_Terminates,
          T_C16_IdleOwnsNothing, T_C16_QuiescentDir, T_C16_GcSucceeds} = {TRUE}

(* Executions with an injected I/O fault (Traces[tr].fault): the clauses an I/O error makes unattainable are not       *)
(* evaluated - an Add that fails in the reload AFTER its commit point (C04_AckIffCommitted's second half), failures     *)
(* other than lock failures, Close / Clean reporting the error.  Everything an error path may never do still is.        *)
T_AllFault == {T_C04_NoLostNoPhantom, T_C04_AckedIsCommitted, T_C04_OneAtATime, T_C04_FinalView,
          T_C05_ListIntegrity, T_C05_NoGc, T_C06_Atomic, T_C08_OwnerOnly, T_C09_StaleNeverCommits,
          T_C10_OneVersion, T_C10_Readable, T_C10_Content, T_C10_Terminates,
          T_C16_IdleOwnsNothing, T_C16_QuiescentDir} = {TRUE}

T_All == IF Traces[tr].fault THEN T_AllFault ELSE T_AllPlain
=============================================================================
