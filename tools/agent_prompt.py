#!/usr/bin/env python3
"""Print the prompt given to a mutant-writing sub-agent for one property (only the property text + worktree path)."""
import json, sys
pid = sys.argv[1]
n = sys.argv[2] if len(sys.argv) > 2 else "3"
for l in open('/verif/properties.jsonl'):
    p = json.loads(l)
    if p['id'] == pid:
        break
else:
    sys.exit("no such property")
print(f"""You are helping to evaluate a verification framework for a Go library: a Go implementation of Git's reftable format (block-based ref/reflog table writer/reader, merged iterator, and an auto-compacting on-disk table stack with lock files). A private git worktree of the library is at /tmp/wt/{pid} (Go module github.com/google/reftable; there is also a C port under c/). Work ONLY inside /tmp/wt/{pid} and /tmp/seeded-out/. Never read or write /repo or /verif (they are off limits; your work must be independent of them).

Every shell call needs: export GOFLAGS=-mod=mod GOPROXY=off GOSUMDB=off GOTOOLCHAIN=local   (there is no network). The existing test suite is: cd /tmp/wt/{pid} && go test -vet=off -count=1 ./...

Here is a semantic property that the library is supposed to satisfy:

  id: {pid}
  title: {p['title']}
  statement: {p['statement']}
  quantified over: {p['quantifier']['text']}

Your task: write {n} DIFFERENT, realistic changes ("seeded defects") to the library's non-test Go source (not the tests, not the C code unless the property is about C) such that each change
  (1) still compiles and the existing test suite above still passes completely, and
  (2) breaks the property above, and
  (3) needs something specific to manifest: a particular interleaving of processes/handles, a crash or fault at a particular point, a multi-step sequence of operations, an unusual input or configuration, or two cooperating code sites that each look fine alone. Do NOT produce changes that ordinary simple use would expose at once (e.g. breaking every Add). Think of plausible mistakes a maintainer could make in a refactoring or optimisation (an off-by-one at a boundary, a wrong condition on an error path, a dropped re-check, a cache, a reordered pair of filesystem calls, a cleanup that runs in the wrong case ...). Keep each change small (typically 1-15 lines).

For each change k in a, b, c, ... create the directory /tmp/seeded-out/{pid}-k/ containing:
  - patch.diff : output of `git diff` in the worktree for that change alone (relative to the pristine HEAD; it must apply with `git apply` to a pristine checkout)
  - a demonstration: either demo_test.go (a Go test file, package reftable, that can be copied into the module root and run with `go test -vet=off -count=1 -run <TestName> .`) or a small standalone program; it must FAIL (or show the broken behaviour) with the change applied and PASS on the pristine tree. If the defect needs a specific interleaving of two handles/processes, the demonstration may simulate it sequentially by performing by hand the filesystem steps another process would do (creating/removing lock files, editing tables.list, etc.), or by using goroutines plus test-only synchronisation; explain which.
  - meta.json : {{"property": "{pid}", "summary": "<what the change does>", "needs": "<what is needed for it to manifest>", "demo": "<exact command to run the demonstration>", "existing_tests_pass": true}}

Procedure for each change: start from a clean worktree (`git -C /tmp/wt/{pid} checkout -- . && git -C /tmp/wt/{pid} clean -fdq`), make the edit, run the existing suite (must pass; run it 2-3 times if the area is timing-sensitive), save patch.diff, write the demo, confirm it fails with the change, then revert the source change (keep the demo file aside), confirm the demo passes on the pristine tree, and remove the demo file from the worktree. Leave the worktree clean at the end (git status clean).

Important: the pristine tree may itself have bugs; if your demonstration fails on the pristine tree, it does not count - choose a different scenario where pristine passes and the changed tree fails. Your final answer should list each change in 2-3 lines (what, why it breaks the property, what it needs to manifest), and confirm the three checks (suite passes with change, demo fails with change, demo passes without).""")
