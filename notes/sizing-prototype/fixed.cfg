SPECIFICATION Spec
CONSTANTS Handles = {1,2}
  MaxOps = 2
  MaxIds = 5
  FixRelock = TRUE
  FixReuse = TRUE
  InitN = 2
  CrashOn = FALSE
INVARIANTS C04_NoLostNoPhantom C04_AckedCommitted C05_ListIntegrity C08_Locks C10_Snapshot C16_Residue
CHECK_DEADLOCK FALSE
