#!/bin/bash
# usage: try_mutant.sh <patch> <check-id>... : apply patch to /repo, run quick checks, revert. Prints one line per check.
patch=$1; shift
cd /repo && git apply $patch || { echo "apply failed"; exit 3; }
cd /verif
for id in "$@"; do
  out=$(./check $id --tier quick 2>&1); rc=$?
  echo "CHECK $id rc=$rc $(echo "$out" | grep -c '^VIOLATION') violations: $(echo "$out" | grep -A1 '^VIOLATION' | grep -v '^VIOLATION' | head -3 | tr '\n' ';' | cut -c1-300)"
  [ $rc = 2 ] && echo "$out" | tail -5
done
git -C /repo checkout -- . 
