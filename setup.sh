#!/bin/sh
# Run once after a fresh restore, offline: warms the Go build cache by assembling and building the
# harness once, and checks that TLC starts.  Nothing is fetched.
set -e
cd "$(dirname "$0")"
mkdir -p evidence replays
export GOFLAGS=-mod=mod GOPROXY=off GOSUMDB=off GOTOOLCHAIN=local
python3 - <<'PY'
import sys, shutil
sys.path.insert(0, "lib")
import common as C
sc = C.mkscratch("setup")
try:
    mod = C.assemble(sc)
    for pkg in ("drvproto", "drvstore", "drvcompact", "drvtable", "drvfault"):
        C.gobuild(mod, pkg, sc + "/" + pkg)
    for pkg in ():
        C.gobuild(mod, pkg, sc + "/" + pkg)
    print("harness builds")
finally:
    shutil.rmtree(sc, ignore_errors=True)
PY
java -cp /opt/veriftools/tla/tla2tools.jar tlc2.TLC -h >/dev/null 2>&1 || true
echo setup ok
