"""C17: auto-compaction picks a valid range, makes progress, keeps the stack shallow.

  (i)   TLC: every size vector up to length L over representative sizes satisfies the C17 guarantees on
        Compaction!Suggest (transcription of stack.go); the REAL suggestCompactionSegment is evaluated on
        every one of those vectors (also scaled by 2^20 and 2^33) and TLC checks code = specification
  (ii)  TLC: the single-writer game for N up to 4096 and a grid of size models stays within the bounds
  (iii) real single-writer workloads with auto-compaction, recorded and validated by TraceCompaction
"""
import itertools, json, os, random, re, shutil, subprocess, time, threading, collections, concurrent.futures as cf
import common as C, store as S

LEVEL = "model_checking"
REPS = [1, 2, 3, 4, 5, 7, 8, 9, 15, 16, 17, 31, 32]
CHECKS = ["C17_SuggestEqualsSpec", "C17_SpecGuarantees", "C17_AddFailed", "C17_RangeIsSuggested", "C17_Progress", "C17_Shallow", "C17_RewriteBound", "C17_StaleAutoCompact"]


def mc_cfg(mode, maxlen=0, n=0, unit=1, a=1, b=0):
    mod = "---- MODULE MCJob ----\nEXTENDS CompactionMC\nMC_Reps == {%s}\n====\n" % ", ".join(map(str, REPS))
    cfg = ("SPECIFICATION Spec\nCONSTANTS\n  Reps <- MC_Reps\n  MaxLen = %d\n  Mode = \"%s\"\n  N = %d\n  Unit = %d\n  A = %d\n  B = %d\n"
           "CHECK_DEADLOCK FALSE\nINVARIANTS\n  C17_ValidRange\n  C17_NothingIffNoPair\n  C17_LowestRun\n  C17_Shallow\n  C17_RewriteBound\n  C17_Conserved\n"
           % (maxlen, mode, n, unit, a, b))
    return mod, cfg


def run_tlc_job(sc, name, mod, cfg, workers, timeout, heap="8g"):
    sd = os.path.join(sc, "cmc-" + name)
    shutil.copytree(os.path.join(C.VERIF, "spec"), sd)
    with open(os.path.join(sd, "MCJob.tla"), "w") as f:
        f.write(mod)
    with open(os.path.join(sd, "mc.cfg"), "w") as f:
        f.write(cfg)
    r = C.tlc(sd, "MCJob", "mc.cfg", sc, workers=workers, timeout=timeout, heap=heap, extra=["-maxSetSize", "20000000"])
    r["name"] = name
    shutil.rmtree(sd, ignore_errors=True)
    return r


def workloads(rng, tier):
    ws = []
    ns = [64, 150, 300] if tier == "quick" else [64, 200, 500, 1000, 2000, 4000]
    i = 0
    for n in ns:
        reps = 4 if tier == "quick" else (6 if n <= 1000 else 2)
        for _ in range(reps):
            kind = rng.choice(["value", "value", "symref", "peeled", "delete"])
            w = {"id": "wl%d" % i, "n": n, "per": rng.choice([1, 1, 2, 3, 8]), "namelen": rng.choice([0, 0, 10, 60]), "kind": kind,
                 "fresh": rng.random() < 0.6 or kind == "delete", "logs": rng.random() < 0.3 and kind != "delete", "split": rng.random() < 0.75,
                 "hash": rng.choice(["sha1", "s256"]), "blocksize": rng.choice([0, 0, 256, 1024]), "unaligned": rng.random() < 0.3,
                 "restart": rng.choice([0, 1, 16]), "every": 1 if n <= 300 else 7, "observer": True}
            if w["blocksize"] and w["namelen"] > 10:
                w["blocksize"] = 1024
            ws.append(w)
            i += 1
    # probe of the recorded finding: 9 entries rewritten after 4 one-entry transactions (bound 8)
    ws.append({"id": "kf-tiny", "n": 8, "per": 1, "namelen": 10, "kind": "value", "fresh": True, "logs": False, "split": True, "hash": "sha1", "blocksize": 0,
               "unaligned": False, "restart": 0, "every": 1})
    # transactions much smaller than the fixed per-table overhead, N = 400: the regime in which a size heuristic that counts
    # a few constant bytes too many merges the bottom tables again and again
    for k, (kind, logs, hs) in enumerate([("symref", False, "sha1"), ("value", False, "sha1"), ("symref", False, "s256"), ("delete", True, "sha1")]):
        ws.append({"id": "tiny%d" % k, "n": 400, "per": 1, "namelen": 0, "kind": kind, "fresh": True, "logs": logs and kind != "delete", "split": k % 2 == 0, "hash": hs,
                   "blocksize": 0, "unaligned": False, "restart": 0, "every": 1, "tiny": True})
    # every ref points at the same object, small blocks: the object's index record outgrows a block, the writer must fall back to a
    # record without position list - in the compacted tables only (a transaction's own table is too small to have an object index)
    for k, (bs, hs_) in enumerate([(96, "sha1"), (128, "s256")]):
        ws.append({"id": "sameobj%d" % k, "n": 200 if tier == "quick" else 600, "per": 1, "namelen": 0, "kind": "value", "fresh": True, "logs": False, "split": k == 0,
                   "hash": hs_, "blocksize": bs, "unaligned": False, "restart": 0, "every": 1, "sameobj": True})
    for k in range(6 if tier == "quick" else 40):
        ws.append({"id": "mix%d" % k, "n": 60 if tier == "quick" else 200, "per": 1, "namelen": rng.choice([0, 10]), "kind": "value", "fresh": True,
                   "logs": False, "split": True, "hash": rng.choice(["sha1", "s256"]), "blocksize": rng.choice([0, 1024]), "unaligned": rng.random() < 0.3,
                   "restart": 0, "every": 1, "mixed": True, "seed": rng.randint(1, 1 << 30)})
    return ws


def run(pid, tier):
    t0 = time.time()
    seed = C.seed()
    rng = random.Random(seed * 1000003 + 17)
    sc = C.mkscratch(pid)
    known = C.known_findings().get(pid, {})
    try:
        mod = C.assemble(sc)
        drv = C.gobuild(mod, "drvcompact", os.path.join(sc, "drvcompact"))

        L = 4 if tier == "quick" else 5
        exh = []

        def exhaustive():
            m, c = mc_cfg("vectors", maxlen=L if tier == "quick" else 6)
            exh.append(run_tlc_job(sc, "vectors", m, c, 8, 300 if tier == "quick" else 3000, heap="8g" if tier == "quick" else "24g"))
            grid = [(1, 1, 0), (5, 5, 0), (100, 100, 0), (100, 40, 60), (100, 90, 10)] if tier == "quick" else \
                   [(1, 1, 0), (3, 3, 0), (5, 5, 0), (100, 100, 0), (100, 40, 60), (100, 90, 10), (100, 10, 90), (1000, 999, 1), (64, 32, 32), (70, 35, 35)]
            for (unit, a, b) in grid:
                m, c = mc_cfg("game", n=600 if tier == "quick" else 4096, unit=unit, a=a, b=b)
                exh.append(run_tlc_job(sc, "game-%d-%d-%d" % (unit, a, b), m, c, 1, 300 if tier == "quick" else 1500, heap="4g"))

        th = threading.Thread(target=exhaustive)
        th.start()

        # (i) every vector through the real function
        vecs = [list(v) for k in range(0, L + 1) for v in itertools.product(REPS, repeat=k)]
        jobs, chunk = [], 3000
        for i in range(0, len(vecs), chunk):
            jobs.append({"id": "vec%d" % (i // chunk), "vectors": vecs[i:i + chunk], "shifts": [0, 20, 33], "workloads": []})
        # (iii) real workloads
        wls = workloads(rng, tier)
        for w in wls:
            jobs.append({"id": w["id"], "vectors": [], "shifts": [], "workloads": [w]})

        def one(i):
            jp, op = os.path.join(sc, "cj-%d.json" % i), os.path.join(sc, "co-%d.json" % i)
            with open(jp, "w") as f:
                json.dump([jobs[i]], f)
            p = subprocess.run([drv, jp, op], stdout=subprocess.PIPE, stderr=subprocess.STDOUT, text=True, timeout=1800,
                               env=dict(os.environ, TMPDIR=sc))
            if p.returncode != 0:
                raise C.Inconclusive("compaction driver failed: " + p.stdout[-2000:])
            with open(op) as f:
                res = json.load(f)
            os.remove(jp)
            os.remove(op)
            return res

        with cf.ThreadPoolExecutor(max_workers=14) as ex:
            outs = [o for res in ex.map(one, range(len(jobs))) for o in res]
        for o in outs:
            o["nh"] = 1
        viols, rej, vstats = S.validate(outs, sc, module="TraceCompaction", chunk=2, jvms=12)
        th.join()
        byid = {o["id"]: o for o in outs}

        mine = [v for v in viols if v[0] in CHECKS]
        nviol, seen_known = 0, set()
        bysig = collections.OrderedDict()
        def sig_of(chk, tid, line):
            # the recorded finding (KNOWN_FINDINGS.txt): for N <= 64 the literal bound N*ceil(log2 N) is exceeded by less than one
            # extra level (fixed per-table overhead puts tables of 1, 2 and 3 transactions into one size class);
            # anything beyond that - larger N, or more than one level - is a different violation and is reported
            if chk == "C17_RewriteBound":
                e = byid[tid]["events"][line - 1]
                n, per = e.get("n", 0), max(1, e.get("per", 1))
                lg = max(1, (n - 1).bit_length())
                if 2 <= n <= 64 and e.get("written", 0) <= n * (lg + 1) * per:
                    return "rewrite-bound-small-n-within-one-level"
            return chk
        for chk, tid, line in mine:
            bysig.setdefault(sig_of(chk, tid, line), []).append((chk, tid, line))
        for sig, lst in bysig.items():
            if sig in known:
                seen_known.add(sig)
                print("KNOWN-FINDING: property=%s %s (%s)" % (pid, known[sig], sig))
                continue
            chk, tid, line = lst[0]
            ev = byid[tid]["events"][line - 1]
            wl = [w for w in wls if w["id"] == tid]
            path = C.save_replay(pid, "%s-%d" % (chk, seed), {"property": pid, "check": chk, "event": ev, "workload": wl[0] if wl else None,
                                                                 "count": len(lst)})
            print("VIOLATION property=%s replay=%s" % (pid, path))
            print("  %s failed: %s (%d cases)" % (chk, json.dumps(ev)[:300], len(lst)))
            nviol += 1

        states = trans = 0
        for r in exh:
            states += r["distinct"]
            trans += r["generated"]
            if r["rc"] == -9:
                if C.within_budget(r, tier):
                    continue
                raise C.Inconclusive("TLC timed out on " + r["name"])
            inv, _ = C.tlc_violations(r["out"])
            if inv:
                raise C.Inconclusive("the specification CompactionMC (%s) violates %s: the transcribed chooser does not meet the declarative "
                                     "guarantee - specification defect or a design-level defect to be reproduced on the code" % (r["name"], inv))
            if "No error has been found" not in r["out"]:
                raise C.Inconclusive("TLC failed on CompactionMC:\n" + r["out"][-3000:])
        if rej and nviol == 0:
            raise C.Inconclusive("traces rejected by TraceCompaction: %s" % rej[:3])

        steps = sum(1 for o in outs for e in o["events"] if e["op"] == "step")
        cov = dict(states=states, transitions=max(trans, 1), traces_validated_against_impl=len(outs),
                   samples=[{"vector_event": outs[1]["events"][5] if len(outs) > 1 and len(outs[1]["events"]) > 5 else outs[0]["events"][:1]},
                            {"workload": wls[0], "step_event": [e for e in byid[wls[0]["id"]]["events"][:3]]}],
                   exhaustive=True, vectors_checked_on_code=len(vecs), vector_max_len=L, shifts=[0, 20, 33],
                   workloads=len(wls), workload_steps_validated=steps, largest_workload=max(w["n"] for w in wls),
                   exhaustive_jobs=[dict(name=r["name"], distinct=r["distinct"], generated=r["generated"], wall=round(r["wall"], 1), complete=not r.get("incomplete", False)) for r in exh],
                   checks=CHECKS, known_findings_seen=sorted(seen_known))
        C.write_evidence(pid, tier, LEVEL, cov, time.time() - t0, nviol,
                         assumptions=["table sizes are positive (a table is never smaller than its header)",
                                      "sizes >= 2^31 are covered by scaling vectors with powers of two (TLC integers are 32-bit)",
                                      "the rewrite bound is checked with ceil(log2 N)"])
        print("%s %s: %d spec states, %d vectors on code, %d workloads (%d steps), %d violations, %.1fs" %
              (pid, tier, states, len(vecs), len(wls), steps, nviol, time.time() - t0))
        return 1 if nviol else 0
    finally:
        shutil.rmtree(sc, ignore_errors=True)


def replay(pid, path):
    with open(path) as f:
        rp = json.load(f)
    print(json.dumps(rp, indent=1)[:3000])
    return 1
