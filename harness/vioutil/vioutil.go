// Package ioutil (import path verifwork/vioutil) is the gated façade over io/ioutil.
package ioutil

import (
	"io"
	realioutil "io/ioutil"
	realos "os"
	"syscall"

	"verifwork/sched"
	vos "verifwork/vos"
)

var Discard = io.Discard

func ReadAll(r io.Reader) ([]byte, error) { return io.ReadAll(r) }
func NopCloser(r io.Reader) io.ReadCloser { return io.NopCloser(r) }

func ReadFile(name string) ([]byte, error) { return vos.ReadFile(name) }

func WriteFile(name string, data []byte, perm realos.FileMode) error {
	return vos.WriteFile(name, data, perm)
}

func TempFile(dir, pattern string) (*vos.File, error) { return vos.CreateTemp(dir, pattern) }

func TempDir(dir, pattern string) (string, error) { return realioutil.TempDir(dir, pattern) }

func ReadDir(dirname string) ([]realos.FileInfo, error) {
	if sched.Gate("readdir", dirname, "") {
		sched.Done("readdir", dirname, "", "EIO", sched.Event{"n": 0, "injected": true})
		return nil, &realos.PathError{Op: "readdir", Path: dirname, Err: syscall.EIO}
	}
	es, err := realioutil.ReadDir(dirname)
	var names []string
	for _, e := range es {
		names = append(names, e.Name())
	}
	sched.Done("readdir", dirname, "", vos.Res(err), sched.Event{"n": len(es)})
	return es, err
}
