------------------------------ MODULE NavFault ------------------------------
(***************************************************************************)
(* C18, design obligation: the reader's index descent (reader.go           *)
(* seekIndexed) terminates on ARBITRARY index graphs - entries pointing at *)
(* their own block, at later blocks, at blocks of another kind, outside    *)
(* the file.  The rule that makes it terminate is the one the repaired     *)
(* reader enforces: an index entry may only lead to a block that lies      *)
(* BEFORE the index block holding it (children are written before their    *)
(* parents) - AND, since the descent may roll over from a child index      *)
(* block into the index blocks that follow it, that the blocks from which  *)
(* entries are taken move backwards as well (found by the thorough tier of *)
(* C18, D22: the first rule alone still loops).  RuleOn = FALSE is the     *)
(* pinned reader; RuleOn alone is the reader before the D22 repair.        *)
(*                                                                         *)
(* Every graph over N blocks is an initial state: a block is a data block  *)
(* ("d") or an index block with one or two child positions in 0..N+1.      *)
(***************************************************************************)
EXTENDS Naturals, Sequences, FiniteSets, TLC

CONSTANTS N, RuleOn, RollRuleOn

VARIABLE g
Blocks == {<<"d">>} \cup {<<"i", a>> : a \in 0..(N + 1)} \cup {<<"i", a, b>> : a \in 0..(N + 1), b \in 0..(N + 1)}
Init == g \in [1..N -> Blocks]
Next == UNCHANGED g
Spec == Init /\ [][Next]_g

IsIndex(o) == o \in 1..N /\ g[o][1] = "i"
Entries(o) == 1..(Len(g[o]) - 1)

(* The descent takes an entry from index block o; the entry leads to block c.  In c the key is sought; the next entry is  *)
(* taken from c itself - or, when the key lies behind c's last entry, Next ROLLS OVER into the blocks that follow c in the *)
(* file as long as they are index blocks (tableIter.Next / nextBlock) and takes the first entry found there.               *)
(* Rule 1 (RuleOn):     an entry must lead to a block before the block holding it.                                       *)
(* Rule 2 (RollRuleOn): the blocks from which entries are taken have strictly decreasing positions (D22).                 *)
RECURSIVE Roll(_)
Roll(c) == IF IsIndex(c) THEN {c} \cup Roll(c + 1) ELSE {}
Succ(o) ==
  UNION {LET c == g[o][k + 1] IN
         IF (RuleOn /\ c >= o) \/ ~IsIndex(c) THEN {}
         ELSE {o2 \in Roll(c) : ~RollRuleOn \/ o2 < o}
        : k \in Entries(o)}

(* the index blocks from which entries can be taken, starting from a set of them *)
RECURSIVE Reach(_)
Reach(seen) ==
  LET new == UNION {Succ(o) : o \in seen} \ seen
  IN IF new = {} THEN seen ELSE Reach(seen \cup new)

(* a descent can run for ever iff some index block can be reached from itself *)
Loops == \E s \in 1..N : IsIndex(s) /\ Succ(s) # {} /\ s \in Reach(Succ(s))
C18_DescentTerminates == ~Loops
=============================================================================
