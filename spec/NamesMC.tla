------------------------------ MODULE NamesMC ------------------------------
(***************************************************************************)
(* C12, exhaustively over a small alphabet of names rich in prefix         *)
(* relations: the rule refname.go implements (AcceptRule) accepts a        *)
(* transaction exactly when committing it leaves the set of live names     *)
(* conflict-free and adds no ill-formed name (AcceptDecl), for EVERY       *)
(* reachable set of live names and EVERY transaction; hence live names     *)
(* never conflict.                                                         *)
(***************************************************************************)
EXTENDS Store

CONSTANTS Names, MaxTxn    \* set of names (tuples of components); records per transaction
VARIABLES live, hist
vars == <<live, hist>>
view == <<live>>

Txns == {ad \in (SUBSET Names) \X (SUBSET Names) : ad[1] \cap ad[2] = {} /\ Cardinality(ad[1] \cup ad[2]) \in 1..MaxTxn}

Init == live = {} /\ hist = <<>>
Commit == \E ad \in Txns :
            /\ AcceptRule(live, ad[1], ad[2])
            /\ live' = LiveAfter(live, ad[1], ad[2])
            /\ hist' = Append(hist, [adds |-> ad[1], dels |-> ad[2], accept |-> TRUE])
Reject == \E ad \in Txns :
            /\ ~AcceptRule(live, ad[1], ad[2])
            /\ UNCHANGED live
            /\ hist' = Append(hist, [adds |-> ad[1], dels |-> ad[2], accept |-> FALSE])
Next == Commit \/ Reject
Spec == Init /\ [][Next]_vars

C12_NoConflict == ~Conflict(live)
C12_RuleIffMeaning == \A ad \in Txns : AcceptRule(live, ad[1], ad[2]) = AcceptDecl(live, ad[1], ad[2])
=============================================================================
