------------------------------- MODULE Store -------------------------------
(***************************************************************************)
(* The stack as a sequential transactional store: what a stack of tables   *)
(* MEANS (merged views, seeks, RefsFor), what a transaction, a compaction  *)
(* and a reflog expiry do to it, and which transactions the name rule      *)
(* accepts.  Pure operators over values; the state machines that use them  *)
(* are StoreMC.tla (exhaustive exploration of small universes) and         *)
(* TraceStore.tla (validation of histories recorded from the real code).   *)
(*                                                                         *)
(* Values.  A key is a natural number: the rank of the ref name in the     *)
(* bytewise order of all names of the universe (TLC cannot compare strings *)
(* with <).  A ref record is <<key, updateIndex, value>> with value one of *)
(* <<"d","","">> (deletion), <<"v",oid,"">>, <<"p",oid,peeled>>,           *)
(* <<"s",target,"">>; a log record is <<key, updateIndex, value, time>>,   *)
(* value "" being a deletion, any other value a digest of ALL fields.      *)
(* A table is [min, max, refs, logs] with refs sorted by key and logs      *)
(* sorted by (key ascending, update index descending).                     *)
(***************************************************************************)
EXTENDS Naturals, Sequences, FiniteSets, SequencesExt, Functions, TLC

Key(r) == r[1]
Idx(r) == r[2]
Val(r) == r[3]
IsDelRef(r) == r[3][1] = "d"
IsDelLog(r) == r[3] = ""

RefLess(a, b) == a[1] < b[1]
LogLess(a, b) == a[1] < b[1] \/ (a[1] = b[1] /\ a[2] > b[2])

SortRefs(S) == SetToSortSeq(S, RefLess)
SortLogs(S) == SetToSortSeq(S, LogLess)

(* ---------------------------------------------------------------------- *)
(* Meaning of a stack of tables (declarative)                              *)

(* newest table containing ref key k *)
TopRef(tabs, k) == CHOOSE i \in DOMAIN tabs : (\E r \in Range(tabs[i].refs) : r[1] = k) /\
                      \A j \in DOMAIN tabs : (\E r \in Range(tabs[j].refs) : r[1] = k) => j <= i
RefKeys(tabs) == UNION {{r[1] : r \in Range(tabs[i].refs)} : i \in DOMAIN tabs}
RawRefs(tabs) == SortRefs({CHOOSE r \in Range(tabs[TopRef(tabs, k)].refs) : r[1] = k : k \in RefKeys(tabs)})
RefView(tabs) == SelectSeq(RawRefs(tabs), LAMBDA r : ~IsDelRef(r))

LogKeys(tabs) == UNION {{<<r[1], r[2]>> : r \in Range(tabs[i].logs)} : i \in DOMAIN tabs}
TopLog(tabs, kk) == CHOOSE i \in DOMAIN tabs : (\E r \in Range(tabs[i].logs) : <<r[1], r[2]>> = kk) /\
                      \A j \in DOMAIN tabs : (\E r \in Range(tabs[j].logs) : <<r[1], r[2]>> = kk) => j <= i
RawLogs(tabs) == SortLogs({CHOOSE r \in Range(tabs[TopLog(tabs, kk)].logs) : <<r[1], r[2]>> = kk : kk \in LogKeys(tabs)})
LogView(tabs) == SelectSeq(RawLogs(tabs), LAMBDA r : ~IsDelLog(r))

(* seeking = the suffix of the scan starting at the first record at or after the key *)
SeekRefIn(view, k) == SelectSeq(view, LAMBDA r : r[1] >= k)
(* SeekLog(name, u): entries of one ref come newest first, so "at or after (k, u)" is *)
SeekLogIn(view, k, u) == SelectSeq(view, LAMBDA r : r[1] > k \/ (r[1] = k /\ r[2] <= u))

(* RefsFor(oid): the live refs whose value or peeled value is oid *)
PointsAt(r, oid) == (r[3][1] \in {"v", "p"} /\ r[3][2] = oid) \/ (r[3][1] = "p" /\ r[3][3] = oid)
RefsForIn(view, oid) == SelectSeq(view, LAMBDA r : PointsAt(r, oid))

(* ---------------------------------------------------------------------- *)
(* Transactions                                                            *)

NextIndex(tabs) == IF tabs = <<>> THEN 1 ELSE tabs[Len(tabs)].max + 1

(* a transaction part as the table it becomes *)
TableOf(min, max, refs, logs) == [min |-> min, max |-> max, refs |-> SortRefs(Range(refs)), logs |-> SortLogs(Range(logs))]

(* ---------------------------------------------------------------------- *)
(* Compaction of tables i..j, as stack.go does it: newest record wins per  *)
(* key; ref tombstones are dropped iff the range starts at the bottom of   *)
(* the stack; log records are filtered by the expiry configuration only.   *)
NoExpiry == [time |-> 0, min |-> 0, max |-> 0]
Expired(r, e) == \/ (e.time > 0 /\ r[4] < e.time)
                 \/ (e.max # 0 /\ r[2] > e.max)
                 \/ (e.min # 0 /\ r[2] < e.min)

CompactTable(tabs, i, j, e) ==
  LET sub == SubSeq(tabs, i, j)
      refs == IF i = 1 THEN SelectSeq(RawRefs(sub), LAMBDA r : ~IsDelRef(r)) ELSE RawRefs(sub)
      logs == SelectSeq(RawLogs(sub), LAMBDA r : ~Expired(r, e))
  IN [min |-> tabs[i].min, max |-> tabs[j].max, refs |-> refs, logs |-> logs]

Compact(tabs, i, j, e) ==
  LET t == CompactTable(tabs, i, j, e) IN
  SubSeq(tabs, 1, i - 1) \o (IF t.refs = <<>> /\ t.logs = <<>> THEN <<>> ELSE <<t>>) \o SubSeq(tabs, j + 1, Len(tabs))

(* what C07 demands of ANY compaction (declarative): nothing a reader sees changes *)
ViewPreserved(before, after) == RefView(after) = RefView(before) /\ LogView(after) = LogView(before)
(* what C13 demands of an expiry: exactly the expired entries go, refs untouched *)
ExpiryExact(before, after, e) ==
  /\ RefView(after) = RefView(before)
  /\ LogView(after) = SelectSeq(LogView(before), LAMBDA r : ~Expired(r, e))

(* ---------------------------------------------------------------------- *)
(* The name rule (refname.go).  A name is the sequence of its components   *)
(* ("a/b" = <<"a","b">>, "a//b" = <<"a","","b">>); keys are mapped to names *)
(* by the function `comps` supplied by the user of this module.            *)
IsDirOf(a, b) == Len(a) < Len(b) /\ SubSeq(b, 1, Len(a)) = a     \* a is a directory prefix of b
WellFormed(c) == \A i \in DOMAIN c : c[i] \notin {"", ".", ".."}
Conflict(S) == (\E a, b \in S : IsDirOf(a, b)) \/ (\E a \in S : ~WellFormed(a))

(* declarative: committing the transaction would create a conflict or add an ill-formed name *)
LiveAfter(live, adds, dels) == (live \ dels) \cup adds
AcceptDecl(live, adds, dels) == (\A a \in adds : WellFormed(a)) /\ ~Conflict(LiveAfter(live, adds, dels))

(* the rule as refname.go implements it: for every addition a: the name is  *)
(* well-formed; no addition or live, non-deleted ref has prefix a + "/";     *)
(* no proper parent directory of a is an addition or a live, non-deleted ref *)
HasRefWithPrefix(live, adds, dels, a) == \E b \in adds \cup (live \ dels) : IsDirOf(a, b)
HasRef(live, adds, dels, d) == d \in adds \/ (d \notin dels /\ d \in live)
Parents(a) == {SubSeq(a, 1, n) : n \in 1..(Len(a) - 1)}
AcceptRule(live, adds, dels) ==
  \A a \in adds : /\ WellFormed(a)
                  /\ ~HasRefWithPrefix(live, adds, dels, a)
                  /\ \A d \in Parents(a) : ~HasRef(live, adds, dels, d)
=============================================================================
