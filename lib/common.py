"""Shared orchestration for the /verif checks (Python 3 standard library only)."""
import json, os, re, shutil, subprocess, sys, tempfile, time, glob

VERIF = os.path.dirname(os.path.dirname(os.path.abspath(__file__)))
REPO = os.environ.get("VERIF_REPO", "/repo")
TLAJAR = "/opt/veriftools/tla/tla2tools.jar"
CMJAR_GLOB = "/opt/veriftools/tla/*.jar"

GOENV = dict(os.environ, GOFLAGS="-mod=mod", GOPROXY="off", GOSUMDB="off", GOTOOLCHAIN="local",
             CGO_ENABLED=os.environ.get("CGO_ENABLED", "1"))


class Inconclusive(Exception):
    pass


def seed():
    try:
        return int(os.environ.get("VERIF_SEED", "1"))
    except ValueError:
        return 1


def mkscratch(tag):
    base = os.environ.get("VERIF_SCRATCH", tempfile.gettempdir())
    return tempfile.mkdtemp(prefix="verif-%s-" % tag, dir=base)


_IMPORT_RE = re.compile(r'^(\s*)(?:(\w+)\s+)?"(os|io/ioutil)"\s*$')


def rewrite_imports(src):
    """Rewrite `"os"` -> `os "verifwork/vos"` and `"io/ioutil"` -> `ioutil "verifwork/vioutil"`
    inside import declarations only."""
    out, in_block = [], False
    for line in src.split("\n"):
        s = line.strip()
        if s.startswith("import ("):
            in_block = True
            out.append(line)
            continue
        if in_block and s == ")":
            in_block = False
            out.append(line)
            continue
        target = None
        if in_block:
            m = _IMPORT_RE.match(line)
            if m:
                indent, alias, pkg = m.group(1), m.group(2), m.group(3)
                target = (indent, alias, pkg)
        elif s.startswith("import "):
            m = _IMPORT_RE.match(s[len("import "):])
            if m:
                target = ("import ", m.group(2), m.group(3))
        if target:
            indent, alias, pkg = target
            if pkg == "os":
                out.append('%s%s "verifwork/vos"' % (indent, alias or "os"))
            else:
                out.append('%s%s "verifwork/vioutil"' % (indent, alias or "ioutil"))
        else:
            out.append(line)
    return "\n".join(out)


def assemble(scratch):
    """Build the scratch Go module `verifwork` from /repo's CURRENT WORKING TREE + /verif/harness."""
    mod = os.path.join(scratch, "verifwork")
    os.makedirs(mod)
    with open(os.path.join(mod, "go.mod"), "w") as f:
        f.write("module verifwork\n\ngo 1.21\n")
    hs = os.path.join(VERIF, "harness")
    for d in os.listdir(hs):
        if d == "export" or not os.path.isdir(os.path.join(hs, d)):
            continue
        shutil.copytree(os.path.join(hs, d), os.path.join(mod, d))
    rt = os.path.join(mod, "reftable")
    os.makedirs(rt)
    n = 0
    for fn in sorted(os.listdir(REPO)):
        if not fn.endswith(".go") or fn.endswith("_test.go"):
            continue
        with open(os.path.join(REPO, fn)) as f:
            src = f.read()
        with open(os.path.join(rt, fn), "w") as f:
            f.write(rewrite_imports(src))
        n += 1
    if n == 0:
        raise Inconclusive("no Go sources found in %s" % REPO)
    shutil.copy(os.path.join(hs, "export", "verif_export.go.txt"), os.path.join(rt, "verif_export.go"))
    return mod


def gobuild(mod, pkg, out, race=False, timeout=600):
    cmd = ["go", "build"] + (["-race"] if race else []) + ["-o", out, "./" + pkg]
    p = subprocess.run(cmd, cwd=mod, env=GOENV, stdout=subprocess.PIPE, stderr=subprocess.STDOUT, text=True, timeout=timeout)
    if p.returncode != 0:
        raise Inconclusive("harness does not build against the working tree (%s):\n%s" % (pkg, p.stdout[-4000:]))
    return out


# ----------------------------------------------------------------------------- TLC

def tlc(specdir, module, cfg, workdir, workers=8, timeout=900, extra=(), heap="4g", deadlock=None, cont=False, simulate=None, depthfirst=False, small=False):
    """Run TLC on a scratch copy. Returns dict(out=..., rc=..., states=..., distinct=..., wall=...)."""
    meta = tempfile.mkdtemp(prefix="tlcmeta-", dir=workdir)
    java = ["java", "-Xss64m", "-Xmx" + heap, "-XX:+UseParallelGC"]
    if small:   # many short JVMs side by side: keep their helper threads from fighting over the cores
        java += ["-XX:ParallelGCThreads=2", "-XX:CICompilerCount=2", "-XX:TieredStopAtLevel=1", "-Xshare:auto"]
    if depthfirst:
        java.append("-Dtlc2.tool.queue.IStateQueue=StateDeque")
    cmd = java + ["-cp", TLAJAR + ":" + os.path.join(os.path.dirname(TLAJAR), "*"), "tlc2.TLC",
                  "-metadir", meta, "-workers", str(workers), "-config", cfg]
    if deadlock is False:
        cmd.append("-deadlock")
    if cont:
        cmd.append("-continue")
    if simulate:
        cmd += ["-simulate", simulate]
    cmd += list(extra) + [module]
    t0 = time.time()
    try:
        p = subprocess.run(cmd, cwd=specdir, stdout=subprocess.PIPE, stderr=subprocess.STDOUT, text=True, timeout=timeout)
        out, rc = p.stdout, p.returncode
    except subprocess.TimeoutExpired as e:
        out = (e.stdout or b"").decode("utf-8", "replace") if isinstance(e.stdout, bytes) else (e.stdout or "")
        rc = -9
        subprocess.run(["pkill", "-f", meta], stdout=subprocess.DEVNULL, stderr=subprocess.DEVNULL)
    shutil.rmtree(meta, ignore_errors=True)
    res = dict(out=out, rc=rc, wall=time.time() - t0, generated=0, distinct=0, cmd=" ".join(cmd))
    m = re.findall(r"([\d,]+) states generated(?: \([^)]*\))?, ([\d,]+) distinct states found", out)
    if m:
        res["generated"], res["distinct"] = int(m[-1][0].replace(",", "")), int(m[-1][1].replace(",", ""))
    res["timed_out"] = rc == -9
    return res


def within_budget(r, tier):
    """A TLC job of the THOROUGH tier that used up its time budget is not an error: TLC checks every invariant on every state
    it generates, so what it explored until then was explored completely; the evidence says `complete: false` and how many
    states that was.  (Quick-tier jobs are sized to finish; there a time-out stays inconclusive.)"""
    if r.get("rc") != -9 or tier != "thorough" or not r.get("distinct"):
        return False
    if "is violated" in r["out"] or "Error:" in r["out"]:
        return False
    r["incomplete"] = True
    return True


def tlc_violations(out):
    """Names of invariants / properties TLC reports as violated, plus deadlock flag."""
    inv = re.findall(r"Invariant (\S+) is violated", out)
    prop = re.findall(r"(?:Action property|Temporal properties|Property) (\S+)? ?(?:is|were) violated", out)
    dead = "Deadlock reached" in out
    return inv, dead


def parse_tla_value(s):
    """Parse a value printed by TLC (records, sequences, sets, functions, strings, ints, booleans)."""
    pos = 0

    def ws():
        nonlocal pos
        while pos < len(s) and s[pos] in " \t\r\n":
            pos += 1

    def val():
        nonlocal pos
        ws()
        c = s[pos]
        if c == '"':
            pos += 1
            b = []
            while s[pos] != '"':
                if s[pos] == "\\":
                    pos += 1
                b.append(s[pos])
                pos += 1
            pos += 1
            return "".join(b)
        if s.startswith("<<", pos):
            pos += 2
            items = []
            ws()
            while not s.startswith(">>", pos):
                items.append(val())
                ws()
                if s[pos] == ",":
                    pos += 1
                ws()
            pos += 2
            return items
        if c == "{":
            pos += 1
            items = []
            ws()
            while s[pos] != "}":
                items.append(val())
                ws()
                if s[pos] == ",":
                    pos += 1
                ws()
            pos += 1
            return {"#set": items}
        if c == "[":
            pos += 1
            d = {}
            ws()
            while s[pos] != "]":
                ws()
                # record field or function mapping
                m = re.match(r"[A-Za-z_][A-Za-z0-9_]*", s[pos:])
                save = pos
                if m:
                    pos += m.end()
                    ws()
                    if s.startswith("|->", pos):
                        pos += 3
                        d[m.group(0)] = val()
                    else:
                        pos = save
                        m = None
                if not m:
                    raise ValueError("unsupported function literal at %d: %r" % (pos, s[pos:pos + 40]))
                ws()
                if s[pos] == ",":
                    pos += 1
                ws()
            pos += 1
            return d
        if c == "(":
            # function printed as (a :> b @@ c :> d)
            pos += 1
            d = {}
            ws()
            while s[pos] != ")":
                k = val()
                ws()
                assert s.startswith(":>", pos), s[pos:pos + 20]
                pos += 2
                v = val()
                d[json.dumps(k) if not isinstance(k, (str, int)) else k] = v
                ws()
                if s.startswith("@@", pos):
                    pos += 2
                ws()
            pos += 1
            return {"#fn": d}
        m = re.match(r"-?\d+", s[pos:])
        if m:
            pos += m.end()
            return int(m.group(0))
        m = re.match(r"[A-Za-z_][A-Za-z0-9_]*", s[pos:])
        if m:
            pos += m.end()
            w = m.group(0)
            if w == "TRUE":
                return True
            if w == "FALSE":
                return False
            return {"#id": w}
        raise ValueError("cannot parse at %d: %r" % (pos, s[pos:pos + 40]))

    v = val()
    return v


def parse_states(text):
    """Split a TLC error trace / simulation file into a list of {var: parsed value}."""
    states = []
    # TLC error-trace format: "State N: <...>\n/\ v = ...\n/\ w = ..."
    blocks = re.split(r"\n(?=State \d+:|STATE_\d+ ==)", "\n" + text)
    for b in blocks:
        if not re.match(r"\s*(State \d+:|STATE_\d+ ==)", b):
            continue
        body = b.split("\n", 1)[1] if "\n" in b else ""
        st = {}
        for m in re.finditer(r"(?:^|\n)/\\ (\w+) = ((?:.|\n)*?)(?=\n/\\ \w+ = |\n\s*\n|\Z)", body):
            try:
                st[m.group(1)] = parse_tla_value(m.group(2).strip())
            except Exception as e:  # keep raw text if the value uses syntax we do not parse
                st[m.group(1)] = {"#raw": m.group(2).strip()}
        hdr = re.match(r"\s*State \d+: <(\w+)", b)
        if hdr:
            st["#action"] = hdr.group(1)
        states.append(st)
    return states


# ----------------------------------------------------------------------------- findings / evidence

def known_findings():
    """finding: property=<id> signature=<sig> <text>   |   fixed: property=<id> <commit> <text>"""
    res = {}
    p = os.path.join(VERIF, "KNOWN_FINDINGS.txt")
    if not os.path.exists(p):
        return res
    for line in open(p):
        line = line.strip()
        m = re.match(r"finding:\s+property=(\S+)\s+signature=(\S+)\s+(.*)", line)
        if m:
            res.setdefault(m.group(1), {})[m.group(2)] = m.group(3)
    return res


def evidence_dir():
    d = os.path.join(VERIF, "evidence") if "VERIF_REPO" not in os.environ else os.path.join(tempfile.gettempdir(), "verif-evidence-other-tree")
    os.makedirs(d, exist_ok=True)
    return d


def write_evidence(pid, tier, level, coverage, wall, violations, assumptions=()):
    # evidence describes runs against /repo; a run redirected to another tree (VERIF_REPO, used to try seeded changes) writes elsewhere
    evdir = evidence_dir()
    ev = dict(property_id=pid, tier=tier, seed=seed(), level=level, coverage=coverage,
              assumptions=list(assumptions), wall_s=round(wall, 2), violations=violations)
    with open(os.path.join(evdir, pid + ".json"), "w") as f:
        json.dump(ev, f, indent=1, sort_keys=True)
        f.write("\n")


def save_replay(pid, name, obj):
    d = os.path.join(VERIF, "replays") if "VERIF_REPO" not in os.environ else os.path.join(tempfile.gettempdir(), "verif-replays-other-tree")
    os.makedirs(d, exist_ok=True)
    p = os.path.join(d, "%s-%s.json" % (pid, name))
    with open(p, "w") as f:
        json.dump(obj, f, indent=1)
    return p


def copy_spec(workdir):
    d = os.path.join(workdir, "spec")
    shutil.copytree(os.path.join(VERIF, "spec"), d)
    return d
