SPECIFICATION TSpec
CONSTANT TraceFile = "traces.json"
CHECK_DEADLOCK TRUE
INVARIANTS
  C05_ListIntegrity
  C05_NoGc
  C04_NoLostNoPhantom
  C04_AckIffCommitted
  C04_OneAtATime
  C04_OnlyLockFailures
  C04_FinalView
  C06_Atomic
  C08_OwnerOnly
  C09_StaleNeverCommits
  C10_OneVersion
  C10_Readable
  C10_Content
  C16_IdleOwnsNothing
  C16_QuiescentDir
