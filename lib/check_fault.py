"""C18: reading damaged or hostile table bytes fails cleanly (fault enumeration).

The fault space is derived from the format: the independent decoder locates every length / count / offset /
type field of valid tables of every layout; each field x each member of its fault class (0, 1, value-1, value+1,
2*value, maxima of the field width, file length, positions of other blocks / its own block, unterminated varint)
gives one damaged file (footer checksum repaired, log blocks re-deflated), plus truncations at every block
boundary +-1 and below header+footer.  Each damaged file is opened and exercised through the real reader in a
child process under a watchdog: panic, hang (no progress for 20 s), unbounded iteration or memory exhaustion is
a violation.  TLC contributes the design obligation that index navigation terminates on ARBITRARY index graphs
(NavFault.tla)."""
import json, os, random, re, shutil, subprocess, time, collections, concurrent.futures as cf
import common as C, check_table as CT

LEVEL = "fault_enumeration"


def sig_of(msg):
    m = re.sub(r"\d+", "N", msg)
    m = re.sub(r"0x[0-9a-fN]+", "0xN", m)
    return m[:140]


def eval_range(drv, wd, a, b, timeout=25, table=None):
    """evaluate faults [a,b) (of one table's plan file when `table` is given) in child processes; returns {k: outcome};
    a child that dies or hangs blames the fault it had started"""
    res = {}
    k = a
    targ = [] if table is None else [str(table)]
    while k < b:
        p = subprocess.Popen(["prlimit", "--as=8000000000", drv, "eval", wd, str(k), str(b)] + targ, stdout=subprocess.PIPE, stderr=subprocess.PIPE, text=True,
                             env=dict(os.environ, GOMAXPROCS="2"))
        try:
            out, err = p.communicate(timeout=timeout + (b - k) * 0.05)
            hung = False
        except subprocess.TimeoutExpired:
            p.kill()
            out, err = p.communicate()
            hung = True
        started = None
        for line in out.split("\n"):
            if line.startswith("START "):
                started = int(line.split()[1])
            elif line.startswith("OK "):
                res[int(line.split()[1])] = ""
                started = None
            elif line.startswith("BAD "):
                parts = line.split(" ", 2)
                res[int(parts[1])] = parts[2]
                started = None
        if "DONE" in out:
            break
        if started is None:
            # died outside any fault (should not happen)
            raise C.Inconclusive("fault driver died: rc=%s %s" % (p.returncode, err[-500:]))
        if hung:
            # the budget is per range: on a loaded machine it can run out on an innocent fault, so the fault that was
            # in progress is evaluated again on its own, with a generous limit, before it is blamed
            try:
                q = subprocess.run(["prlimit", "--as=8000000000", drv, "eval", wd, str(started), str(started + 1)] + targ, stdout=subprocess.PIPE, stderr=subprocess.PIPE,
                                   text=True, timeout=180, env=dict(os.environ, GOMAXPROCS="2"))
                m = re.search(r"^(OK|BAD) %d ?(.*)$" % started, q.stdout, re.M)
                if m:
                    res[started] = m.group(2) if m.group(1) == "BAD" else ""
                else:
                    m = re.search(r"(fatal error: [^\n]*|panic: [^\n]*|runtime: out of memory[^\n]*)", q.stderr)
                    res[started] = "crash: " + (m.group(1) if m else "child exited %s" % q.returncode)
            except subprocess.TimeoutExpired:
                res[started] = "hang: no result within 180 s for this single damaged file"
        else:
            m = re.search(r"(fatal error: [^\n]*|panic: [^\n]*|runtime: out of memory[^\n]*)", err)
            res[started] = "crash: " + (m.group(1) if m else "child exited %s" % p.returncode)
        k = started + 1
    return res


def nav_design(sc, tier):
    """spec/NavFault.tla: the index descent - including its roll-over into following index blocks - terminates on EVERY index
    graph over N blocks under the reader's two rules (an entry leads to an earlier block; entries are taken from blocks that
    move backwards); with only the first rule (the reader before the D22 repair) and with neither (the pinned reader) TLC finds
    the loop - the self-tests that the model is not vacuous.  The code side of this obligation is the edge_to_* fault class."""
    sd = C.copy_spec(sc)
    n = 3 if tier == "quick" else 4
    out = {}
    for rule, roll in (("TRUE", "TRUE"), ("TRUE", "FALSE"), ("FALSE", "FALSE")):
        cfg = os.path.join(sd, "nav_%s_%s.cfg" % (rule, roll))
        full = rule == "TRUE" and roll == "TRUE"
        with open(cfg, "w") as f:
            f.write("SPECIFICATION Spec\nCONSTANTS\n  N = %d\n  RuleOn = %s\n  RollRuleOn = %s\nCHECK_DEADLOCK FALSE\nINVARIANT C18_DescentTerminates\n"
                    % (n if full else 3, rule, roll))
        r = C.tlc(sd, "NavFault", cfg, sc, workers=8, timeout=1800)
        inv, _ = C.tlc_violations(r["out"])
        if full:
            if inv or "No error has been found" not in r["out"]:
                raise C.Inconclusive("NavFault: the design model does not establish termination: " + r["out"][-1500:])
            out["graphs"] = r["distinct"]
            out["blocks"] = n
        else:
            if "C18_DescentTerminates" not in inv:
                raise C.Inconclusive("NavFault self-test: without the rule(s) the model should loop: " + r["out"][-1500:])
            out["rule1_only" if rule == "TRUE" else "no_rule"] = "loops (self-test)"
    return out


def run(pid, tier):
    t0 = time.time()
    seed = C.seed()
    rng = random.Random(seed * 1000003 + 18)
    sc = C.mkscratch(pid)
    known = C.known_findings().get(pid, {})
    try:
        mod = C.assemble(sc)
        drv = C.gobuild(mod, "drvfault", os.path.join(sc, "drvfault"))
        ncases = 14 if tier == "quick" else 100
        cases = [CT.gen_case(rng, "f%d" % i, rng.choice(["C01", "C02", "C11"])) for i in range(ncases * 3)]
        # keep a spread of layouts: small, multi-block, indexed, with logs / object index
        cases.sort(key=lambda c: (len(c["refs"]) + len(c["logs"])))
        pick = cases[:: max(1, len(cases) // ncases)][:ncases]
        import tablemc
        pick += [c for c in tablemc.shape_cases("C11", "quick", sc, seed) if len(c["refs"]) <= 130][: (4 if tier == "quick" else 20)]
        # one table with a large block size: room for a deflate stream that inflates to far more than the block declares
        bigblk = CT.gen_case(random.Random(seed + 7), "fbig", "C01")
        bigblk["blocksize"], bigblk["unaligned"] = 1 << 20, False
        if not bigblk["logs"]:
            hs = 40 if bigblk["hash"] == "sha1" else 64
            bigblk["logs"] = [{"n": "refs/heads/biglog", "i": bigblk["min"], "del": False, "old": "", "new": "ab" * (hs // 2), "user": "u", "email": "e",
                               "time": 1, "tz": 0, "msg": "m"}]
        pick.append(bigblk)
        # tables whose ref index has several levels (95-byte names: an index block of 256 bytes holds two entries): the index graph
        for di, (nd, hs) in enumerate([(24, 40), (40, 64), (70, 40), (120, 64)]):
            one = "c3" * (hs // 2)
            names = ["refs/heads/%s%05d" % ("w" * 95, 3 * j + 1) for j in range(nd)]
            pick.append({"id": "fdeep%d" % di, "blocksize": 256, "restart": 16, "unaligned": bool(di % 2), "skipindex": False, "hash": "sha1" if hs == 40 else "s256", "exact": False,
                         "min": 7, "max": 7, "refs": [{"n": nm, "i": 7, "v": ["v", one, ""]} for nm in names],
                         "logs": [{"n": nm, "i": 7, "del": False, "old": "", "new": one, "user": "u", "email": "e", "time": 5, "tz": 0, "msg": "m"} for nm in names[:6]],
                         "seekrefs": names[::3] + ["", "zzz"], "seeklogs": [{"n": names[0], "i": 7}, {"n": names[5], "i": 7}]})
        # sections of two or three blocks without an index (linear seeks across blocks): refs only, and logs only
        for li, hs in enumerate([40, 64]):
            one = "d4" * (hs // 2)
            names = ["refs/heads/branch%04d" % j for j in range(14)]
            base = {"blocksize": 256, "restart": 16, "unaligned": False, "skipindex": True, "hash": "sha1" if hs == 40 else "s256", "exact": False, "min": 1, "max": 1}
            pick.append(dict(base, id="flinr%d" % li, refs=[{"n": nm, "i": 1, "v": ["v", one, ""]} for nm in names], logs=[],
                             seekrefs=[names[0], names[6], names[13], "zzz"], seeklogs=[]))
            pick.append(dict(base, id="fling%d" % li, refs=[], seekrefs=[],
                             logs=[{"n": nm, "i": 1, "del": False, "old": "", "new": one, "user": "user%d" % j, "email": "e%d@x" % j, "time": 5 + j, "tz": 0, "msg": "message %d" % j}
                                   for j, nm in enumerate(names)], seeklogs=[{"n": names[0], "i": 1}, {"n": names[13], "i": 1}, {"n": "zzz", "i": 1}]))
        # an object id referenced from more than seven ref blocks: its object-index record uses the long count form
        for oi, hs in enumerate([40, 64]):
            one, two = "e5" * (hs // 2), "f6" * (hs // 2)
            names = ["refs/heads/shared%04d" % j for j in range(90)]
            pick.append({"id": "fobj%d" % oi, "blocksize": 256, "restart": 16, "unaligned": bool(oi), "skipindex": False, "hash": "sha1" if hs == 40 else "s256", "exact": False,
                         "min": 1, "max": 1, "refs": [{"n": nm, "i": 1, "v": ["v", one if j % 9 else two, ""]} for j, nm in enumerate(names)], "logs": [],
                         "seekrefs": [names[0], names[50]], "seeklogs": []})
        wd = os.path.join(sc, "faults")
        os.makedirs(wd)
        with open(os.path.join(wd, "cases.json"), "w") as f:
            json.dump(pick, f)
        nrandom = 150 if tier == "quick" else 800
        p = subprocess.run([drv, "plan", os.path.join(wd, "cases.json"), wd, str(nrandom), str(seed)], stdout=subprocess.PIPE, stderr=subprocess.STDOUT, text=True, timeout=600)
        if p.returncode != 0:
            raise C.Inconclusive("fault planning failed: " + p.stdout[-2000:])
        with open(os.path.join(wd, "plan.json")) as f:
            plan = json.load(f)
        faults = plan["faults"]
        nf = len(faults)
        # faults are stored table by table (plan-<t>.json): ranges are per table, results are mapped back to global indices
        step = 400 if tier == "quick" else 1500
        base, ranges = {}, []
        for gi, ft in enumerate(faults):
            base.setdefault(ft["table"], gi)
        counts = collections.Counter(ft["table"] for ft in faults)
        for t, n in sorted(counts.items()):
            ranges += [(t, a, min(n, a + step)) for a in range(0, n, step)]
        results = {}
        with cf.ThreadPoolExecutor(max_workers=8 if tier == "quick" else 12) as ex:
            for (t, a, b), r in zip(ranges, ex.map(lambda tab: eval_range(drv, wd, tab[1], tab[2], table=tab[0]), ranges)):
                results.update({base[t] + k: v for k, v in r.items()})
        bad = {k: v for k, v in results.items() if v}
        nviol, seen_known = 0, set()
        bysig = collections.OrderedDict()
        for k in sorted(bad):
            bysig.setdefault(sig_of(bad[k]), []).append(k)
        for sig, ks in bysig.items():
            if sig in known:
                seen_known.add(sig)
                print("KNOWN-FINDING: property=%s %s (%s; %d damaged files)" % (pid, known[sig], sig, len(ks)))
                continue
            k = ks[0]
            ft = faults[k]
            rp = C.save_replay(pid, "fault-%d-%d" % (seed, nviol), {"property": pid, "signature": sig, "fault": ft, "outcome": bad[k], "count": len(ks),
                                                                      "case": pick[plan["caseof"][ft["table"]]] if ft["table"] < len(plan.get("caseof", [])) else None})
            print("VIOLATION property=%s replay=%s" % (pid, rp))
            print("  %s  [field %s, fault %s, table layout %s; %d damaged files with this signature]" % (bad[k][:200], ft["field"], ft["class"], ft["feat"], len(ks)))
            nviol += 1
        design = nav_design(sc, tier)
        combos = {(f["field"], f["class"], f["feat"]) for f in faults}
        cov = dict(evaluations=len(results), distinct_nontrivial=len(combos),
                   rule="one evaluation = one damaged file opened and exercised (NewReader, full scans, seeks, ReadRef/ReadLogAt, RefsFor); "
                        "distinct = (format field, fault class, layout feature of the table) triples, counted",
                   samples=[faults[0], faults[len(faults) // 2], faults[-1]], exhaustive=True,
                   tables=len(plan["tables"]), fields=len({f["field"] for f in faults}), fault_classes=len({f["class"] for f in faults}),
                   failures=len(bad), failure_signatures=len(bysig), known_findings_seen=sorted(seen_known),
                   index_graph_edges=sum(1 for f in faults if f["class"].startswith("edge_to_")), design_model=design)
        C.write_evidence(pid, tier, LEVEL, cov, time.time() - t0, nviol,
                         assumptions=["faults are structural edits of format fields, truncations, and a seeded sample of bit flips and splices; coverage-guided fuzzing is NOT done",
                                      "memory safety is observed (panic / crash / watchdog), not proved"])
        print("%s %s: %d damaged files from %d tables, %d (field, class, layout) combinations, %d failures in %d signatures, %d violations, %.1fs" %
              (pid, tier, len(results), len(plan["tables"]), len(combos), len(bad), len(bysig), nviol, time.time() - t0))
        return 1 if nviol else 0
    finally:
        shutil.rmtree(sc, ignore_errors=True)


def replay(pid, path):
    """re-evaluates the recorded fault on the current tree"""
    sc = C.mkscratch(pid)
    try:
        mod = C.assemble(sc)
        drv = C.gobuild(mod, "drvfault", os.path.join(sc, "drvfault"))
        with open(path) as f:
            rp = json.load(f)
        print("fault:", json.dumps(rp.get("fault")))
        try:
            p = subprocess.run([drv, "one", path, os.path.join(sc, "damaged.ref")], stdout=subprocess.PIPE, stderr=subprocess.STDOUT, text=True, timeout=120)
            out = p.stdout
        except subprocess.TimeoutExpired:
            print("VIOLATION property=%s replay=%s\n  hang: no result within 120 s" % (pid, path))
            return 1
        print(out[-3000:])
        if "\nOK" in out or out.startswith("START\nOK"):
            return 0
        print("VIOLATION property=%s replay=%s" % (pid, path))
        return 1
    finally:
        shutil.rmtree(sc, ignore_errors=True)
