---------------------------- MODULE WriterLayout ----------------------------
(***************************************************************************)
(* The table writer (writer.go) as the state machine it is, over abstract  *)
(* records: Add / flushBlock / finishSection (one step per index level) /  *)
(* next section / Close, with block capacities Kd (records per data block) *)
(* and Ki (entries per index block) instead of byte sizes; and the reader's *)
(* navigation (reader.go: seek, seekIndexed, seekLinear, blockReader.seek) *)
(* over the layout the writer emitted.                                     *)
(*                                                                         *)
(* A behaviour writes NR ref records, then (if NL > 0) NL log records.     *)
(* Record j of a section has key j.  A block is [type, sec, keys, idxs];   *)
(* its offset is its position in `out`.                                    *)
(*                                                                         *)
(* Theorems (invariants of the final state): every index level is          *)
(* complete, the footer addresses the top level, and for EVERY key the     *)
(* reader's navigation lands on the first record at or after the key.      *)
(* FixFlushInLoop / FixClearIndex = FALSE reproduce the pinned writer.     *)
(***************************************************************************)
EXTENDS Naturals, Sequences, FiniteSets, SequencesExt, Functions, TLC

CONSTANTS MaxR, MaxL,        \* NR \in 0..MaxR, NL \in 0..MaxL
          Kd, Ki, Threshold,
          FixFlushInLoop, FixClearIndex

VARIABLES nr, nl,            \* how many records this behaviour writes
          phase,             \* "refs", "logs", "closed"
          added,             \* records added to the current section so far
          cur,               \* the open block: [type, sec, keys, idxs] or NoBlock
          index,             \* pending index entries <<last key, offset>>
          out,               \* emitted blocks
          foot               \* [r |-> index offset of the ref section, g |-> ... of the log section]
vars == <<nr, nl, phase, added, cur, index, out, foot>>

NoBlock == [type |-> "none", sec |-> "none", keys |-> <<>>, idxs |-> <<>>]
NewBlock(t, s) == [type |-> t, sec |-> s, keys |-> <<>>, idxs |-> <<>>]
Entries(b) == IF b.type = "i" THEN Len(b.idxs) ELSE Len(b.keys)
LastKey(b) == IF b.type = "i" THEN b.idxs[Len(b.idxs)][1] ELSE b.keys[Len(b.keys)]

Init == /\ nr \in 0..MaxR /\ nl \in 0..MaxL /\ nr + nl > 0
        /\ phase = "refs" /\ added = 0 /\ cur = NoBlock /\ index = <<>> /\ out = <<>> /\ foot = [r |-> 0, g |-> 0]

(* flushBlock: emit the open block (if it has entries) and remember <<last key, offset>> *)
Flushed(o, ix, b) == IF b = NoBlock \/ Entries(b) = 0 THEN <<o, ix>>
                     ELSE <<Append(o, b), Append(ix, <<LastKey(b), Len(o) + 1>>)>>

Sec == IF phase = "refs" THEN "r" ELSE "g"
Want == IF phase = "refs" THEN nr ELSE nl

Add ==
  /\ phase \in {"refs", "logs"} /\ added < Want
  /\ LET b == IF cur = NoBlock THEN NewBlock(Sec, Sec) ELSE cur IN
     IF Len(b.keys) < Kd
     THEN cur' = [b EXCEPT !.keys = Append(@, added + 1)] /\ UNCHANGED <<out, index>>
     ELSE LET f == Flushed(out, index, b) IN
          /\ out' = f[1] /\ index' = f[2]
          /\ cur' = [NewBlock(Sec, Sec) EXCEPT !.keys = <<added + 1>>]
  /\ added' = added + 1
  /\ UNCHANGED <<nr, nl, phase, foot>>

(* one index level: the pending entries go into index blocks of capacity Ki *)
RECURSIVE Pack(_, _, _, _, _)
Pack(ents, k, b, o, ix) ==      \* returns <<out, index, open block>>
  IF k > Len(ents) THEN <<o, ix, b>>
  ELSE IF Len(b.idxs) < Ki THEN Pack(ents, k + 1, [b EXCEPT !.idxs = Append(@, ents[k])], o, ix)
  ELSE LET f == Flushed(o, ix, b) IN Pack(ents, k + 1, [NewBlock("i", b.sec) EXCEPT !.idxs = <<ents[k]>>], f[1], f[2])

RECURSIVE Levels(_, _, _, _)
Levels(o, ix, s, start) ==      \* returns <<out, index left over, index start>>
  IF Len(ix) <= Threshold THEN <<o, ix, start>>
  ELSE LET p == Pack(ix, 1, NewBlock("i", s), o, <<>>)
           st == Len(o) + 1
       IN IF FixFlushInLoop
          THEN LET f == Flushed(p[1], p[2], p[3]) IN
               IF Len(f[2]) >= Len(ix) THEN <<f[1], f[2], st>> ELSE Levels(f[1], f[2], s, st)
          ELSE \* pinned: the last (partial) block of the level stays open; the next level is built without it
               IF Len(p[2]) > Threshold THEN Levels(p[1], p[2], s, st)       \* ... and is then DROPPED by the next level
               ELSE LET f == Flushed(p[1], p[2], p[3]) IN <<f[1], f[2], st>> \* ... or flushed after the loop

FinishSection ==
  /\ phase \in {"refs", "logs"} /\ added = Want
  /\ LET f == Flushed(out, index, cur)
         lv == Levels(f[1], f[2], Sec, 0) IN
     /\ out' = lv[1]
     /\ index' = IF FixClearIndex THEN <<>>
                 ELSE IF lv[3] = 0 THEN <<>> ELSE <<lv[2][Len(lv[2])]>>      \* pinned: the entry of the last flushed index block leaks
     /\ foot' = [foot EXCEPT ![Sec] = lv[3]]
  /\ cur' = NoBlock /\ added' = 0
  /\ phase' = IF phase = "refs" /\ nl > 0 THEN "logs" ELSE "closed"
  /\ UNCHANGED <<nr, nl>>

Next == Add \/ FinishSection
Spec == Init /\ [][Next]_vars

-----------------------------------------------------------------------------
(* The layout *)
DataBlocks(s)  == SelectSeq([i \in DOMAIN out |-> [b |-> out[i], off |-> i]], LAMBDA x : x.b.sec = s /\ x.b.type = s)
IndexBlocks(s) == SelectSeq([i \in DOMAIN out |-> [b |-> out[i], off |-> i]], LAMBDA x : x.b.sec = s /\ x.b.type = "i")

(* declarative: all records of the section in order *)
Records(s) == FoldLeft(LAMBDA acc, x : acc \o x.b.keys, <<>>, DataBlocks(s))

(* ---- reader navigation (reader.go) ---- *)
(* position = <<offset of block, index of record in block>>; the records from a position on: *)
From(s, pos) ==
  LET db == DataBlocks(s) IN
  FoldLeft(LAMBDA acc, x : IF x.off < pos[1] THEN acc
                           ELSE IF x.off = pos[1] THEN acc \o SubSeq(x.b.keys, pos[2], Len(x.b.keys))
                           ELSE acc \o x.b.keys, <<>>, db)
(* blockReader.seek: first entry of the block with key >= want (Len+1 if none) *)
InBlock(keys, want) == IF \E j \in DOMAIN keys : keys[j] >= want THEN CHOOSE j \in DOMAIN keys : keys[j] >= want /\ \A m \in DOMAIN keys : keys[m] >= want => j <= m
                       ELSE Len(keys) + 1
IdxKeys(b) == [j \in DOMAIN b.idxs |-> b.idxs[j][1]]
(* seekLinear over consecutive blocks of type t starting at offset o: the last block whose FIRST key is <= want *)
RECURSIVE Linear(_, _, _)
Linear(o, t, want) ==
  LET nxt == o + 1 IN
  IF nxt <= Len(out) /\ out[nxt].type = t /\ (IF t = "i" THEN out[nxt].idxs[1][1] ELSE out[nxt].keys[1]) <= want
  THEN Linear(nxt, t, want) ELSE o
(* seekIndexed: descend from the block at offset o *)
RECURSIVE Descend(_, _, _, _)
Descend(o, s, want, fuel) ==
  IF fuel = 0 \/ o < 1 \/ o > Len(out) THEN <<0, 0>>                      \* navigation failed
  ELSE IF out[o].type = s THEN <<o, InBlock(out[o].keys, want)>>
  ELSE IF out[o].type # "i" THEN <<0, 0>>                                  \* "got type r following indexes"
  ELSE LET j == InBlock(IdxKeys(out[o]), want) IN
       IF j <= Len(out[o].idxs) THEN Descend(out[o].idxs[j][2], s, want, fuel - 1)
       \* past the end of this index block: the table iterator moves on to the next block of type 'i'
       ELSE IF o + 1 <= Len(out) /\ out[o + 1].type = "i" THEN Descend(out[o + 1].idxs[1][2], s, want, fuel - 1)
       ELSE <<Len(out) + 1, 1>>                                            \* beyond the last key: empty iterator
SeekNav(s, want) ==
  IF DataBlocks(s) = <<>> THEN <<Len(out) + 1, 1>>
  ELSE IF foot[s] > 0
  THEN LET top == Linear(foot[s], "i", want) IN Descend(top, s, want, 8)
  ELSE LET o == Linear(DataBlocks(s)[1].off, s, want) IN <<o, InBlock(out[o].keys, want)>>

SeekDecl(s, want) == SelectSeq(Records(s), LAMBDA k : k >= want)

-----------------------------------------------------------------------------
Closed == phase = "closed"
(* C01/C14: nothing is lost: the records decoded sequentially are the records written *)
DecodeIsInput == Closed => Records("r") = [j \in 1..nr |-> j] /\ Records("g") = [j \in 1..nl |-> j]
(* C02: for every key (present, between, before, beyond) navigation = the scan suffix *)
SeekIsSuffix ==
  Closed => \A s \in {"r", "g"} : \A want \in 0..(IF s = "r" THEN nr ELSE nl) + 1 :
               LET pos == SeekNav(s, want) IN pos # <<0, 0>> /\ From(s, pos) = SeekDecl(s, want)
(* C14: every index entry addresses an index block or data block of its own section, and every block of *)
(* the section is reachable from the top                                                                   *)
RECURSIVE Reach(_)
Reach(o) == IF out[o].type # "i" THEN {o} ELSE {o} \cup UNION {Reach(out[o].idxs[j][2]) : j \in DOMAIN out[o].idxs}
IndexComplete ==
  Closed => \A s \in {"r", "g"} :
    /\ \A x \in Range(IndexBlocks(s)) : \A e \in Range(x.b.idxs) : e[2] \in DOMAIN out /\ out[e[2]].sec = s /\ e[2] < x.off /\ LastKey(out[e[2]]) = e[1]
    /\ foot[s] > 0 => {x.off : x \in Range(DataBlocks(s))} \subseteq
                         UNION {Reach(o) : o \in {x.off : x \in {x \in Range(IndexBlocks(s)) : x.off >= foot[s]}}}
    /\ foot[s] = 0 => IndexBlocks(s) = <<>>
=============================================================================
