"""Exploratory: run the fault enumeration of the protocol family alone and print the violated predicates by signature."""
import sys, json, random, os, time, collections
sys.path.insert(0, '/verif/lib')
import common as C, proto as P, check_proto as CP
sc = C.mkscratch("fexp")
mod = C.assemble(sc)
drv = C.gobuild(mod, "drvproto", os.path.join(sc, "drvproto"))
rng = random.Random(7)
t=time.time()
runs, total = CP.fault_runs(drv, sc, rng, int(sys.argv[1]))
print("fault runs", len(runs), "of", total, time.time()-t)
outs = P.run_driver(drv, runs, sc)
print("driver done", time.time()-t, "events", sum(len(o["events"]) for o in outs))
errs=[o for o in outs if o.get("err")]
print("errs", len(errs))
inj = sum(1 for o in outs if any(e.get("injected") for e in o["events"]))
print("runs with an injected event:", inj)
viols, rej, st = P.validate(outs, sc, jvms=12)
print("validated", time.time()-t, st)
print("rejected", rej[:5])
cnt = collections.Counter()
ex = {}
byid = {o["id"]: o for o in outs}
for inv, tid, line in viols:
    if inv in CP.FAULT_INVS:
        sig = CP.signature(inv, byid[tid], line)
        cnt[sig]+=1; ex.setdefault(sig, (tid, line))
for k,v in cnt.most_common(): print(v, k, ex[k])
json.dump({"runs": runs, "outs": outs}, open("/tmp/faultexp.json","w"))
import shutil; shutil.rmtree(sc)
