"""Exploratory: record random / preemption / crash runs and validate them against StackProto (TraceStackProto)."""
import sys, json, random, os, time, collections
sys.path.insert(0, '/verif/lib')
import common as C, proto as P, check_proto as CP
sc = C.mkscratch("cexp")
mod = C.assemble(sc)
drv = C.gobuild(mod, "drvproto", os.path.join(sc, "drvproto"))
rng = random.Random(int(sys.argv[1]))
n = int(sys.argv[2])
specdir = sys.argv[3] if len(sys.argv) > 3 else None
runs = [P.random_run(rng, "r%d" % i, crash=(i % 4 == 0)) for i in range(n)]
t = time.time()
outs = P.run_driver(drv, runs, sc)
print("driver", time.time() - t)
nin, drift, st = P.conform(outs, runs, sc, specdir=specdir)
print("in vocabulary", nin, "of", len(outs), "drift", len(drift), st, time.time() - t)
byid = {o["id"]: o for o in outs}
rb = {r["id"]: r for r in runs}
cnt = collections.Counter()
for tid, ln, ev in drift[:400]:
    cnt[(ev["k"], ev["op"], ev["pk"], ev["res"])] += 1
print(cnt.most_common(20))
for tid, ln, ev in drift[:3]:
    print("----", tid, ln, ev)
    evs = P.conform_events(byid[tid], rb[tid])
    for e in evs[max(0, ln - 25):ln + 2]:
        print("   ", e["k"], e["h"], e["op"], e["pk"], e["res"], e["path"], e["txn"] or "", e["first"] or "", e["last"] or "", e["auto"] or "")
import shutil; shutil.rmtree(sc)
