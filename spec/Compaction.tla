----------------------------- MODULE Compaction -----------------------------
(***************************************************************************)
(* Auto-compaction (stack.go: log2, sizesToSegments,                       *)
(* suggestCompactionSegment, AutoCompact): the segment chooser transcribed *)
(* (Suggest) next to what it is supposed to guarantee (declarative), and   *)
(* the single-writer "game of 2048".                                       *)
(***************************************************************************)
EXTENDS Naturals, Sequences, FiniteSets, SequencesExt, Functions, TLC

(* floor(log2(n)), log2(0) = 0, as the code computes it *)
RECURSIVE Log2(_)
Log2(n) == IF n <= 1 THEN 0 ELSE 1 + Log2(n \div 2)

RECURSIVE Pow2(_)
Pow2(n) == IF n = 0 THEN 1 ELSE 2 * Pow2(n - 1)

(* ---- transcription of sizesToSegments / suggestCompactionSegment ---- *)
(* a segment is [start, end, log, bytes], start/end 0-based, end exclusive *)
RECURSIVE SegsFrom(_, _, _, _)
SegsFrom(sizes, i, cur, res) ==
  IF i > Len(sizes) THEN Append(res, cur)
  ELSE LET l == Log2(sizes[i])
           flush == cur.log # l /\ cur.bytes > 0
           c0 == IF flush THEN [start |-> i - 1, end |-> i - 1, log |-> 0, bytes |-> 0] ELSE cur
           c1 == [start |-> c0.start, end |-> i, log |-> l, bytes |-> c0.bytes + sizes[i]]
       IN SegsFrom(sizes, i + 1, c1, IF flush THEN Append(res, cur) ELSE res)
Segments(sizes) == SegsFrom(sizes, 1, [start |-> 0, end |-> 0, log |-> 0, bytes |-> 0], <<>>)

None == [start |-> 0, end |-> 0]

RECURSIVE Extend(_, _)
Extend(sizes, seg) ==       \* combine with preceding tables as long as they are not of a bigger class than the sum so far
  IF seg.start = 0 THEN seg
  ELSE LET prev == seg.start        \* 1-based index of the table before the segment
       IN IF Log2(seg.bytes) < Log2(sizes[prev]) THEN seg
          ELSE Extend(sizes, [seg EXCEPT !.start = @ - 1, !.bytes = @ + sizes[prev]])

Suggest(sizes) ==
  LET segs == Segments(sizes)
      multi == {k \in DOMAIN segs : segs[k].end - segs[k].start > 1}
  IN IF multi = {} THEN None
     ELSE LET k == CHOOSE k \in multi : \A j \in multi : segs[k].log < segs[j].log \/ (segs[k].log = segs[j].log /\ k <= j)
              e == Extend(sizes, segs[k])
          IN [start |-> e.start, end |-> e.end]

(* ---- what the chooser must guarantee (C17) ---- *)
AdjacentSameClass(sizes) == \E i \in 1..(Len(sizes) - 1) : Log2(sizes[i]) = Log2(sizes[i + 1])
ValidRange(sizes, s) == s = None \/ (0 <= s.start /\ s.end <= Len(sizes) /\ s.end - s.start >= 2)
NothingIffNoPair(sizes, s) == (s = None) <=> ~AdjacentSameClass(sizes)
(* the range contains a run of equal-class tables of the lowest class that has such a run *)
LowestRun(sizes, s) ==
  s = None \/
  LET pairs == {i \in 1..(Len(sizes) - 1) : Log2(sizes[i]) = Log2(sizes[i + 1])}
      low == CHOOSE c \in {Log2(sizes[i]) : i \in pairs} : \A i \in pairs : c <= Log2(sizes[i])
  IN \E i \in pairs : Log2(sizes[i]) = low /\ s.start <= i - 1 /\ i + 1 <= s.end

(* the stack after compacting the suggested range into one table of size `merged` *)
Apply(sizes, s, merged) == SubSeq(sizes, 1, s.start) \o <<merged>> \o SubSeq(sizes, s.end + 1, Len(sizes))
=============================================================================
