------------------------------ MODULE StoreMC ------------------------------
(***************************************************************************)
(* Exhaustive exploration of the sequential store of Store.tla over a      *)
(* small universe: every history of transactions (creates, updates,        *)
(* deletions, symrefs, log appends, log deletions), compactions of         *)
(* arbitrary contiguous ranges and reflog expiries.  TLC checks the        *)
(* theorems that make compaction (as stack.go performs it and Store.tla    *)
(* transcribes it) invisible to readers (C07) and expiry exact (C13).      *)
(* The variable `hist` records the actions taken, so that simulated        *)
(* behaviours can be exported and executed on the real code (direction A). *)
(***************************************************************************)
EXTENDS Store

CONSTANTS NK,        \* ref keys 1..NK
          RefVals,   \* set of ref values
          Times,     \* set of log entry times
          MaxTabs, MaxSteps,
          Expiries,  \* set of expiry configurations tried (empty: none)
          MaxRefs    \* refs per transaction

VARIABLES tabs, last, steps, hist
vars == <<tabs, last, steps, hist>>
view == <<tabs, last, steps>>

Keys == 1..NK

Init == tabs = <<>> /\ last = [op |-> "init"] /\ steps = 0 /\ hist = <<>>

(* existing log entries (key, idx) in the stack view *)
LiveLogKeys == {<<r[1], r[2]>> : r \in Range(LogView(tabs))}

RefParts == {f \in UNION {[S -> RefVals] : S \in {S \in SUBSET Keys : Cardinality(S) <= MaxRefs}} : TRUE}
LogParts(idx) ==
  {<<>>} \cup {<<<<k, idx, "e", t>>>> : k \in Keys, t \in Times}
         \cup {<<<<kk[1], kk[2], "", 0>>>> : kk \in LiveLogKeys}

Add ==
  /\ Len(tabs) < MaxTabs /\ steps < MaxSteps
  /\ \E f \in RefParts : \E lg \in LogParts(NextIndex(tabs)) :
       /\ (DOMAIN f # {} \/ lg # <<>>)
       /\ LET idx == NextIndex(tabs)
              refs == SortRefs({<<k, idx, f[k]>> : k \in DOMAIN f})
              t == [min |-> idx, max |-> idx, refs |-> refs, logs |-> lg] IN
          /\ tabs' = Append(tabs, t)
          /\ last' = [op |-> "add"]
          /\ hist' = Append(hist, [op |-> "add", refs |-> refs, logs |-> lg])
  /\ steps' = steps + 1

CompactStep ==
  /\ steps < MaxSteps
  /\ \E i \in 1..Len(tabs) : \E j \in (i + 1)..Len(tabs) :
       /\ tabs' = Compact(tabs, i, j, NoExpiry)
       /\ last' = [op |-> "compact"]
       /\ hist' = Append(hist, [op |-> "compact", first |-> i - 1, last |-> j - 1])
  /\ steps' = steps + 1

ExpireStep ==
  /\ steps < MaxSteps /\ tabs # <<>>
  /\ \E e \in Expiries :
       /\ tabs' = Compact(tabs, 1, Len(tabs), e)
       /\ last' = [op |-> "expire", e |-> e]
       /\ hist' = Append(hist, [op |-> "expire", e |-> e])
  /\ steps' = steps + 1

Next == Add \/ CompactStep \/ ExpireStep
Spec == Init /\ [][Next]_vars

(* C07: compaction of ANY contiguous range changes nothing a reader sees *)
C07_CompactionInvisible == [][last'.op = "compact" => ViewPreserved(tabs, tabs')]_vars
(* C07: tombstones of the range survive while older tables remain beneath it: *)
(* the RAW view of every lower part of the stack extended by the range is kept  *)
C07_TombstonesKept == [][last'.op = "compact" => RawRefs(tabs') = RawRefs(tabs) \/
                            {r \in Range(RawRefs(tabs)) : ~IsDelRef(r)} = {r \in Range(RawRefs(tabs')) : ~IsDelRef(r)}]_vars
(* C13: an expiry removes exactly the expired entries and no ref *)
C13_ExpiryExact == [][last'.op = "expire" => ExpiryExact(tabs, tabs', last'.e)]_vars
(* C03/C05: the stack stays well-formed: increasing update-index ranges, sorted tables, one record per key *)
WellFormedStack ==
  /\ \A i \in DOMAIN tabs : tabs[i].min <= tabs[i].max /\ (i > 1 => tabs[i - 1].max < tabs[i].min)
  /\ \A i \in DOMAIN tabs : \A a, b \in DOMAIN tabs[i].refs : a < b => tabs[i].refs[a][1] < tabs[i].refs[b][1]
  /\ \A i \in DOMAIN tabs : \A a, b \in DOMAIN tabs[i].logs : a < b => LogLess(tabs[i].logs[a], tabs[i].logs[b])
(* the views are sorted and key-unique by construction; seeking is a suffix *)
SeekIsSuffix ==
  \A k \in 0..(NK + 1) : LET v == RefView(tabs) s == SeekRefIn(v, k) IN
     /\ Len(s) <= Len(v) /\ s = SubSeq(v, Len(v) - Len(s) + 1, Len(v))
=============================================================================
