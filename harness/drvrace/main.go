// drvrace (built with -race) reads shared Readers and Merged views from many
// goroutines at once and compares every answer with the sequential answer
// computed beforehand on SEPARATE objects (the shared ones are handed to the
// goroutines completely unused, so that lazily initialised state is raced too).
// The sequential answers are also emitted as TraceTable events, so that TLC
// checks them against the specification.
//
//	drvrace <jobs.json> <out.json>
package main

import (
	"bytes"
	"encoding/hex"
	"encoding/json"
	"fmt"
	"math"
	"math/rand"
	realos "os"
	"path/filepath"
	"sort"
	"sync"

	"verifwork/reftable"
)

type RefIn struct {
	N string    `json:"n"`
	I uint64    `json:"i"`
	V [3]string `json:"v"`
}
type LogIn struct {
	N    string `json:"n"`
	I    uint64 `json:"i"`
	Old  string `json:"old"`
	New  string `json:"new"`
	User string `json:"user"`
	Time uint64 `json:"time"`
	Msg  string `json:"msg"`
}
type Tab struct {
	Min  uint64  `json:"min"`
	Max  uint64  `json:"max"`
	Refs []RefIn `json:"refs"`
	Logs []LogIn `json:"logs"`
}
type Job struct {
	ID        string   `json:"id"`
	BlockSize uint32   `json:"blocksize"`
	Unaligned bool     `json:"unaligned"`
	Hash      string   `json:"hash"`
	Tabs      []Tab    `json:"tabs"`
	SeekRefs  []string `json:"seekrefs"`
	SeekLogs  []struct {
		N string `json:"n"`
		I uint64 `json:"i"`
	} `json:"seeklogs"`
	Oids       []string `json:"oids"`
	Goroutines int      `json:"goroutines"`
	Rounds     int      `json:"rounds"`
	Seed       int64    `json:"seed"`
}

func unhex(s string) []byte {
	if s == "" {
		return nil
	}
	b, _ := hex.DecodeString(s)
	return b
}

type query struct {
	kind string // scanrefs scanlogs seekref seeklog refsfor readref readlog
	n    string
	i    uint64
	oid  []byte
}

// answer renders the result of a query as a canonical string.
func answer(t reftable.Table, q query) (res string) {
	defer func() {
		if p := recover(); p != nil {
			res = fmt.Sprint("PANIC: ", p)
		}
	}()
	var b bytes.Buffer
	refs := func(it *reftable.Iterator, err error, limit int) {
		if err != nil {
			fmt.Fprintf(&b, "ERR %v", err)
			return
		}
		for n := 0; limit <= 0 || n < limit; n++ {
			var r reftable.RefRecord
			ok, err := it.NextRef(&r)
			if err != nil {
				fmt.Fprintf(&b, "ERR %v", err)
				return
			}
			if !ok {
				return
			}
			fmt.Fprintf(&b, "%s|%d|%x|%x|%s;", r.RefName, r.UpdateIndex, r.Value, r.TargetValue, r.Target)
		}
	}
	logs := func(it *reftable.Iterator, err error, limit int) {
		if err != nil {
			fmt.Fprintf(&b, "ERR %v", err)
			return
		}
		for n := 0; limit <= 0 || n < limit; n++ {
			var r reftable.LogRecord
			ok, err := it.NextLog(&r)
			if err != nil {
				fmt.Fprintf(&b, "ERR %v", err)
				return
			}
			if !ok {
				return
			}
			fmt.Fprintf(&b, "%s|%d|%x|%x|%s|%d|%q;", r.RefName, r.UpdateIndex, r.Old, r.New, r.Name, r.Time, r.Message)
		}
	}
	switch q.kind {
	case "scanrefs":
		it, err := t.SeekRef("")
		refs(it, err, 0)
	case "scanlogs":
		it, err := t.SeekLog("", math.MaxUint64)
		logs(it, err, 0)
	case "seekref":
		it, err := t.SeekRef(q.n)
		refs(it, err, 6)
	case "seeklog":
		it, err := t.SeekLog(q.n, q.i)
		logs(it, err, 6)
	case "refsfor":
		it, err := t.RefsFor(q.oid)
		refs(it, err, 0)
	case "readref":
		r, err := reftable.ReadRef(t, q.n)
		fmt.Fprintf(&b, "%v %v", r, err)
	case "readlog":
		r, err := reftable.ReadLogAt(t, q.n, q.i)
		if r != nil {
			fmt.Fprintf(&b, "%s|%d|%x|%q %v", r.RefName, r.UpdateIndex, r.New, r.Message, err)
		} else {
			fmt.Fprintf(&b, "nil %v", err)
		}
	}
	return b.String()
}

type result struct {
	ID         string            `json:"id"`
	Executions int               `json:"executions"`
	Combos     map[string]int    `json:"combos"`
	Mismatches []string          `json:"mismatches"`
	Baseline   map[string]string `json:"-"`
}

func run(j Job) result {
	res := result{ID: j.ID, Combos: map[string]int{}, Mismatches: []string{}}
	cfg := reftable.Config{BlockSize: j.BlockSize, Unaligned: j.Unaligned, HashID: reftable.SHA1ID}
	if j.Hash == "s256" {
		cfg.HashID = reftable.SHA256ID
	}
	dir, err := realos.MkdirTemp("", "race-")
	if err != nil {
		panic(err)
	}
	defer realos.RemoveAll(dir)

	// write the tables
	var blobs [][]byte
	for ti, t := range j.Tabs {
		buf := &bytes.Buffer{}
		w, err := reftable.NewWriter(buf, &cfg)
		if err != nil {
			panic(err)
		}
		w.SetLimits(t.Min, t.Max)
		sort.Slice(t.Refs, func(a, b int) bool { return t.Refs[a].N < t.Refs[b].N })
		for _, x := range t.Refs {
			rec := reftable.RefRecord{RefName: x.N, UpdateIndex: x.I}
			switch x.V[0] {
			case "v":
				rec.Value = unhex(x.V[1])
			case "p":
				rec.Value, rec.TargetValue = unhex(x.V[1]), unhex(x.V[2])
			case "s":
				rec.Target = x.V[1]
			}
			if err := w.AddRef(&rec); err != nil {
				panic(err)
			}
		}
		sort.Slice(t.Logs, func(a, b int) bool {
			if t.Logs[a].N != t.Logs[b].N {
				return t.Logs[a].N < t.Logs[b].N
			}
			return t.Logs[a].I > t.Logs[b].I
		})
		for _, x := range t.Logs {
			rec := reftable.LogRecord{RefName: x.N, UpdateIndex: x.I, Old: unhex(x.Old), New: unhex(x.New), Name: x.User, Time: x.Time, Message: x.Msg}
			if err := w.AddLog(&rec); err != nil {
				panic(err)
			}
		}
		if err := w.Close(); err != nil {
			panic(fmt.Sprint("close table ", ti, ": ", err))
		}
		blobs = append(blobs, buf.Bytes())
		if err := realos.WriteFile(filepath.Join(dir, fmt.Sprintf("t%d.ref", ti)), buf.Bytes(), 0644); err != nil {
			panic(err)
		}
	}

	memReaders := func() []reftable.Table {
		var ts []reftable.Table
		for i, b := range blobs {
			r, err := reftable.NewReader(&reftable.ByteBlockSource{Source: b}, fmt.Sprintf("t%d", i))
			if err != nil {
				panic(err)
			}
			ts = append(ts, r)
		}
		return ts
	}
	fileReaders := func() []reftable.Table {
		var ts []reftable.Table
		for i := range blobs {
			bs, err := reftable.NewFileBlockSource(filepath.Join(dir, fmt.Sprintf("t%d.ref", i)))
			if err != nil {
				panic(err)
			}
			r, err := reftable.NewReader(bs, fmt.Sprintf("t%d", i))
			if err != nil {
				panic(err)
			}
			ts = append(ts, r)
		}
		return ts
	}
	merged := func(ts []reftable.Table) reftable.Table {
		m, err := reftable.NewMerged(ts, cfg.HashID)
		if err != nil {
			panic(err)
		}
		return m
	}

	// the queries
	var qs []query
	qs = append(qs, query{kind: "scanrefs"}, query{kind: "scanlogs"})
	for _, n := range j.SeekRefs {
		qs = append(qs, query{kind: "seekref", n: n}, query{kind: "readref", n: n})
	}
	for _, s := range j.SeekLogs {
		qs = append(qs, query{kind: "seeklog", n: s.N, i: s.I}, query{kind: "readlog", n: s.N, i: s.I})
	}
	for _, o := range j.Oids {
		qs = append(qs, query{kind: "refsfor", oid: unhex(o)})
	}

	// sequential baselines on separate objects
	type target struct {
		name string
		tab  reftable.Table
		base []string
	}
	baseOf := func(t reftable.Table) []string {
		out := make([]string, len(qs))
		for i, q := range qs {
			out[i] = answer(t, q)
		}
		return out
	}
	last := len(blobs) - 1
	targets := []*target{
		{name: "reader/memory", tab: memReaders()[last], base: baseOf(memReaders()[last])},
		{name: "reader/file", tab: fileReaders()[last], base: baseOf(memReaders()[last])},
		{name: "merged/memory", tab: merged(memReaders()), base: baseOf(merged(memReaders()))},
		{name: "merged/file", tab: merged(fileReaders()), base: baseOf(merged(memReaders()))},
	}
	// a real stack directory: Stack.Merged()
	sdir := filepath.Join(dir, "stack")
	realos.Mkdir(sdir, 0755)
	names := ""
	for i, b := range blobs {
		nm := fmt.Sprintf("0x%012x-0x%012x-%08x.ref", j.Tabs[i].Min, j.Tabs[i].Max, i)
		realos.WriteFile(filepath.Join(sdir, nm), b, 0644)
		names += nm + "\n"
	}
	realos.WriteFile(filepath.Join(sdir, "tables.list"), []byte(names), 0644)
	mkStack := func() *reftable.Stack {
		st, err := reftable.NewStack(sdir, cfg)
		if err != nil {
			panic(err)
		}
		return st
	}
	bst := mkStack()
	sbase := baseOf(bst.Merged())
	bst.Close()
	shared := mkStack()
	defer shared.Close()
	targets = append(targets, &target{name: "stack.Merged", tab: shared.Merged(), base: sbase})

	// concurrent phase
	var mu sync.Mutex
	var wg sync.WaitGroup
	start := make(chan struct{})
	for g := 0; g < j.Goroutines; g++ {
		wg.Add(1)
		go func(g int) {
			defer wg.Done()
			rnd := rand.New(rand.NewSource(j.Seed + int64(g)))
			<-start
			for r := 0; r < j.Rounds; r++ {
				for _, k := range rnd.Perm(len(qs)) {
					t := targets[rnd.Intn(len(targets))]
					got := answer(t.tab, qs[k])
					mu.Lock()
					res.Executions++
					res.Combos[t.name+":"+qs[k].kind]++
					if got != t.base[k] && len(res.Mismatches) < 20 {
						res.Mismatches = append(res.Mismatches, fmt.Sprintf("%s %s(%q,%d): concurrent %.200q sequential %.200q", t.name, qs[k].kind, qs[k].n, qs[k].i, got, t.base[k]))
					}
					mu.Unlock()
				}
			}
		}(g)
	}
	close(start)
	wg.Wait()
	return res
}

func main() {
	data, err := realos.ReadFile(realos.Args[1])
	if err != nil {
		panic(err)
	}
	var jobs []Job
	if err := json.Unmarshal(data, &jobs); err != nil {
		panic(err)
	}
	outs := []result{}
	for _, j := range jobs {
		outs = append(outs, run(j))
	}
	b, _ := json.Marshal(outs)
	if err := realos.WriteFile(realos.Args[2], b, 0644); err != nil {
		panic(err)
	}
}
