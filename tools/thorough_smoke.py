"""Smoke test of the thorough-tier code paths of the protocol family with small volumes (knob self-tests, full fault enumeration,
conformance over everything recorded, budget sharing): python3 tools/thorough_smoke.py C08"""
import sys, os
sys.path.insert(0, '/verif/lib')
os.environ.setdefault("VERIF_REPO", "/repo")      # evidence / replays of this run go elsewhere
import check_proto as CP
pid = sys.argv[1]
CP.VOL["thorough"] = (30, 60, 60, 300)
CP.EXH["thorough"] = {k: v[:1] for k, v in CP.EXH["quick"].items()}
CP.LIVE["thorough"] = {}
CP.COVER["thorough"] = CP.COVER["quick"]
sys.exit(CP.run(pid, "thorough"))
