// drvcompact binds spec/Compaction.tla to the code: it evaluates the real
// suggestCompactionSegment on size vectors and runs real single-writer
// workloads with auto-compaction, recording what TraceCompaction.tla checks.
//
//	drvcompact <jobs.json> <out.json>
package main

import (
	"encoding/json"
	"fmt"
	"math/rand"
	realos "os"

	"verifwork/reftable"
)

type Workload struct {
	ID      string `json:"id"`
	N       int    `json:"n"`
	Per     int    `json:"per"`     // refs per transaction
	NameLen int    `json:"namelen"` // padding of ref names
	Kind    string `json:"kind"`    // value | symref | peeled | delete
	Fresh   bool   `json:"fresh"`   // fresh names every transaction, or the same names rewritten
	Logs    bool   `json:"logs"`
	Tiny    bool   `json:"tiny"`
	Split   bool   `json:"split"` // Add without auto-compaction followed by an explicit AutoCompact (sizes observable in between)
	Hash    string `json:"hash"`
	Block   uint32 `json:"blocksize"`
	Unalign bool   `json:"unaligned"`
	Restart int    `json:"restart"`
	Every   int    `json:"every"` // record every k-th step (all steps are executed)
	Mixed   bool   `json:"mixed"` // transactions of varying size, some as two-table Additions (no auto-compaction of their own)
	Seed    int64  `json:"seed"`
	Observer bool  `json:"observer"` // a second handle that looks at the stack between an Add and its AutoCompact and calls AutoCompact later, out of date
	SameObj bool   `json:"sameobj"` // every ref points at ONE object: its object-index record outgrows a block (position list omitted)
}

type Job struct {
	ID        string     `json:"id"`
	Vectors   [][]uint64 `json:"vectors"`
	Shifts    []uint     `json:"shifts"`
	Workloads []Workload `json:"workloads"`
}

type Out struct {
	ID     string                   `json:"id"`
	Events []map[string]interface{} `json:"events"`
}

type rng struct{ Start, End int }

func suggest(sizes []uint64) map[string]int {
	s, e, ok := reftable.VerifSuggest(sizes)
	if !ok {
		return map[string]int{"start": 0, "end": 0}
	}
	return map[string]int{"start": s, "end": e}
}

func runVectors(j Job) Out {
	out := Out{ID: j.ID, Events: []map[string]interface{}{}}
	for _, v := range j.Vectors {
		res := []map[string]int{}
		for _, sh := range j.Shifts {
			w := make([]uint64, len(v))
			for i, x := range v {
				w[i] = x << sh
			}
			func() {
				defer func() {
					if p := recover(); p != nil {
						res = append(res, map[string]int{"start": -1, "end": -1})
					}
				}()
				res = append(res, suggest(w))
			}()
		}
		out.Events = append(out.Events, map[string]interface{}{"op": "vec", "sizes": v, "results": res})
	}
	return out
}

func runWorkload(w Workload) Out {
	out := Out{ID: w.ID, Events: []map[string]interface{}{}}
	dir, err := realos.MkdirTemp("", "compact-")
	if err != nil {
		panic(err)
	}
	defer realos.RemoveAll(dir)
	cfg := reftable.Config{BlockSize: w.Block, Unaligned: w.Unalign, RestartInterval: w.Restart, HashID: reftable.SHA1ID}
	if w.Hash == "s256" {
		cfg.HashID = reftable.SHA256ID
	}
	hs := cfg.HashID.Size()
	st, err := reftable.NewStack(dir, cfg)
	if err != nil {
		panic(err)
	}
	defer st.Close()
	var obs *reftable.Stack
	obsAge := -1
	if w.Observer && w.Split {
		if obs, err = reftable.NewStack(dir, cfg); err != nil {
			panic(err)
		}
		defer obs.Close()
	}
	pad := ""
	for len(pad) < w.NameLen {
		pad += "x"
	}
	per := w.Per
	if w.Logs {
		per *= 2
	}
	rnd := rand.New(rand.NewSource(w.Seed))
	for n := 1; n <= w.N; n++ {
		reftable.VerifSetAutoCompact(st, !w.Split)
		idx := st.NextUpdateIndex()
		nrefs := w.Per
		multi := false
		if w.Mixed {
			nrefs = []int{1, 1, 2, 3, 8, 30, 120}[rnd.Intn(7)]
			multi = rnd.Intn(4) == 0
		}
		write := func(wr *reftable.Writer) error {
			wr.SetLimits(idx, idx)
			names := []string{}
			for k := 0; k < nrefs; k++ {
				if w.Tiny {
					names = append(names, fmt.Sprintf("b%d.%d", n, k)) // as small as a transaction gets
				} else if w.Fresh {
					names = append(names, fmt.Sprintf("refs/heads/%s%08d-%03d", pad, n, k))
				} else {
					names = append(names, fmt.Sprintf("refs/heads/%s%03d", pad, k))
				}
			}
			for _, nm := range names {
				rec := reftable.RefRecord{RefName: nm, UpdateIndex: idx}
				h := make([]byte, hs)
				copy(h, fmt.Sprintf("%08d", n))
				if w.SameObj {
					copy(h, "00000007")
				}
				switch w.Kind {
				case "value":
					rec.Value = h
				case "peeled":
					rec.Value, rec.TargetValue = h, append([]byte("p"), h[1:]...)
				case "symref":
					rec.Target = "refs/heads/master"
					if w.Tiny {
						rec.Target = "m"
					}
				case "delete":
				}
				if err := wr.AddRef(&rec); err != nil {
					return err
				}
			}
			if w.Logs {
				for _, nm := range names {
					h := make([]byte, hs)
					copy(h, fmt.Sprintf("%08d", n))
					l := reftable.LogRecord{RefName: nm, UpdateIndex: idx, New: h, Old: h, Name: "n", Email: "e", Time: uint64(n), Message: "m"}
					if err := wr.AddLog(&l); err != nil {
						return err
					}
				}
			}
			return nil
		}
		ev := map[string]interface{}{"op": "step", "n": n, "per": per, "uniform": !w.Mixed, "emptied": w.Kind == "delete", "res": "ok"}
		func() {
			defer func() {
				if p := recover(); p != nil {
					ev["res"], ev["err"] = "panic", fmt.Sprint(p)
				}
			}()
			var err error
			if multi {
				// a two-table transaction through NewAddition: commits without auto-compaction
				var tr *reftable.Addition
				if tr, err = st.NewAddition(); err == nil {
					if err = tr.Add(write); err == nil {
						idx++
						if err = tr.Add(write); err == nil {
							err = tr.Commit()
						}
					}
					tr.Close()
				}
			} else {
				err = st.Add(write)
			}
			if err != nil {
				ev["res"], ev["err"] = "other", err.Error()
			}
			sizes := reftable.VerifTableSizes(st)
			if obs != nil && obsAge < 0 && n%4 == 1 {
				// the observer refreshes its view now: the new table is in, the compaction it may call for is not done yet
				if reftable.VerifReload(obs) == nil {
					obsAge = 0
				}
			}
			if w.Split {
				ev["sizes"] = sizes
				if err := st.AutoCompact(); err != nil {
					ev["res"], ev["err"] = "other", err.Error()
				}
			} else {
				ev["sizes"] = nil
			}
			ev["after"] = reftable.VerifLen(st)
			ev["written"] = st.Stats.EntriesWritten
		}()
		if ev["sizes"] == nil {
			ev["sizes"] = []uint64{}
			ev["split"] = false
		} else {
			ev["split"] = true
		}
		if _, ok := ev["after"]; !ok {
			ev["after"], ev["written"] = 0, 0
		}
		if w.Every <= 1 || n%w.Every == 0 || n <= 40 || ev["res"] != "ok" {
			out.Events = append(out.Events, ev)
		}
		if obs != nil && obsAge >= 0 {
			obsAge++
			if obsAge == 3 {
				// AutoCompact through the observer, whose view is three transactions (and their compactions) old: if it is out of
				// date nothing may happen - the range it would pick was chosen for sizes that are no longer there
				before, _ := realos.ReadFile(dir + "/tables.list")
				utd, _ := obs.UpToDate()
				sev := map[string]interface{}{"op": "staleauto", "n": n, "stale": !utd, "res": "ok", "changed": false}
				func() {
					defer func() {
						if p := recover(); p != nil {
							sev["res"], sev["err"] = "panic", fmt.Sprint(p)
						}
					}()
					if err := obs.AutoCompact(); err != nil && err != reftable.ErrLockFailure {
						sev["res"], sev["err"] = "other", err.Error()
					}
				}()
				after, _ := realos.ReadFile(dir + "/tables.list")
				sev["changed"] = string(before) != string(after)
				out.Events = append(out.Events, sev)
				obsAge = -1
				if string(before) != string(after) {
					reftable.VerifReload(st) // (only after a wrong answer: let the writer go on)
				}
			}
		}
	}
	return out
}

func main() {
	data, err := realos.ReadFile(realos.Args[1])
	if err != nil {
		panic(err)
	}
	var jobs []Job
	if err := json.Unmarshal(data, &jobs); err != nil {
		panic(err)
	}
	outs := []Out{}
	for _, j := range jobs {
		if len(j.Vectors) > 0 {
			outs = append(outs, runVectors(j))
		}
		for _, w := range j.Workloads {
			outs = append(outs, runWorkload(w))
		}
	}
	b, _ := json.Marshal(outs)
	if err := realos.WriteFile(realos.Args[2], b, 0644); err != nil {
		panic(err)
	}
}
