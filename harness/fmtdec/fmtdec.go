// Package fmtdec is an independent decoder of the reftable file format, written
// from the format description (reftable-v2-proposal.md / Documentation/technical/
// reftable) only. It shares no code with the implementation under test and is the
// projection function "bytes -> abstract Layout" of the specification.
//
// It reads a file strictly sequentially (header, blocks in file order, footer),
// never through the indexes, and reports byte-level defects (CRC, varint form,
// non-zero padding, short blocks) as Problems.
package fmtdec

import (
	"bytes"
	"compress/zlib"
	"encoding/binary"
	"fmt"
	"hash/crc32"
	"io"
)

type Ref struct {
	Name   string `json:"name"`
	Idx    uint64 `json:"idx"` // absolute (delta + header minimum)
	Kind   int    `json:"kind"`
	Value  []byte `json:"value,omitempty"`
	Peeled []byte `json:"peeled,omitempty"`
	Target string `json:"target,omitempty"`
}

type Log struct {
	Name    string `json:"name"`
	Idx     uint64 `json:"idx"`
	Del     bool   `json:"del"`
	Old     []byte `json:"old,omitempty"`
	New     []byte `json:"new,omitempty"`
	User    string `json:"user,omitempty"`
	Email   string `json:"email,omitempty"`
	Time    uint64 `json:"time"`
	TZ      int16  `json:"tz"`
	Message string `json:"msg"`
}

type Obj struct {
	Prefix  []byte   `json:"prefix"`
	Offsets []uint64 `json:"offsets"`
}

type Idx struct {
	LastKey string `json:"key"`
	Off     uint64 `json:"off"`
}

// Rec is the format-level view of one record inside a block.
type Rec struct {
	Off       int // offset of the record inside the block (file-header inclusive for block 0)
	PrefixLen int // prefix length as stored
	SuffixLen int
	ValType   int
	Key       string // full key (for logs: name NUL reversed-index)
}

type Block struct {
	Type     byte
	Off      uint64 // file offset at which the block starts (0 for the first block)
	Len      int    // block_len field
	RawLen   int    // bytes occupied before padding (== Len, or compressed length+header for logs)
	Padded   int    // bytes occupied including padding (distance to the next block / footer)
	Restarts []int
	Recs     []Rec
	Refs     []Ref
	Logs     []Log
	Objs     []Obj
	Idxs     []Idx
}

// Field locates one length / count / offset / type field of the file (for fault enumeration).
// For fields inside a log block, Off is relative to the INFLATED block (Block >= 0, InLog true).
type Field struct {
	Name  string `json:"name"`
	Kind  string `json:"kind"` // byte, u16, u24, u64, varint
	Off   int    `json:"off"`
	Len   int    `json:"len"`
	Val   uint64 `json:"val"`
	Block int    `json:"block"` // index into Blocks, -1 for header / footer
	InLog bool   `json:"inlog"`
}

type File struct {
	Fields       []Field
	RecordFields bool
	valField     func(name string, rel, n int, val uint64)
	Version      int
	BlockSize    uint32
	Min, Max     uint64
	HashID       string
	HashSize     int
	HeaderSize   int
	FooterStart  uint64
	Size         uint64

	RefIndexOff, ObjOff, ObjIndexOff, LogOff, LogIndexOff uint64
	ObjIDLen                                              int

	Blocks   []Block
	Problems []string
}

func (f *File) field(name, kind string, off, n int, val uint64, block int, inlog bool) {
	if f.RecordFields {
		f.Fields = append(f.Fields, Field{name, kind, off, n, val, block, inlog})
	}
}

func (f *File) problem(format string, a ...interface{}) {
	if len(f.Problems) < 50 {
		f.Problems = append(f.Problems, fmt.Sprintf(format, a...))
	}
}

// varint reads the "offset" varint of the format; canon reports whether the
// encoding is the shortest (canonical) one, which for this code is always true
// as every value has exactly one encoding; we still guard against overlong (>10 bytes).
func varint(b []byte) (v uint64, n int, ok bool) {
	if len(b) == 0 {
		return 0, 0, false
	}
	p := 0
	v = uint64(b[0] & 0x7f)
	for b[p]&0x80 != 0 {
		p++
		if p >= len(b) || p >= 10 {
			return 0, 0, false
		}
		v = ((v + 1) << 7) | uint64(b[p]&0x7f)
	}
	return v, p + 1, true
}

func hdrSize(v int) int {
	if v == 1 {
		return 24
	}
	return 28
}
func ftrSize(v int) int {
	if v == 1 {
		return 68
	}
	return 72
}

// Parse decodes a whole file. A non-nil error means the file could not be
// walked to its end; Problems lists well-formedness defects found on the way.
// ParseFields is Parse that also records where every structural field lives.
func ParseFields(data []byte) (*File, error) { return parse(data, true) }

func Parse(data []byte) (*File, error) { return parse(data, false) }

func parse(data []byte, fields bool) (*File, error) {
	f := &File{Size: uint64(len(data)), RecordFields: fields}
	if len(data) < 24+68 {
		return f, fmt.Errorf("file too short: %d bytes", len(data))
	}
	if string(data[:4]) != "REFT" {
		return f, fmt.Errorf("bad magic %q", data[:4])
	}
	f.Version = int(data[4])
	if f.Version != 1 && f.Version != 2 {
		return f, fmt.Errorf("bad version %d", f.Version)
	}
	hs, fs := hdrSize(f.Version), ftrSize(f.Version)
	f.HeaderSize = hs
	if len(data) < hs+fs {
		return f, fmt.Errorf("file too short for version %d: %d", f.Version, len(data))
	}
	f.BlockSize = uint32(data[5])<<16 | uint32(data[6])<<8 | uint32(data[7])
	f.Min = binary.BigEndian.Uint64(data[8:])
	f.Max = binary.BigEndian.Uint64(data[16:])
	f.HashID, f.HashSize = "sha1", 20
	if f.Version == 2 {
		f.HashID = string(data[24:28])
		switch f.HashID {
		case "sha1":
		case "s256":
			f.HashSize = 32
		default:
			return f, fmt.Errorf("unknown hash id %q", f.HashID)
		}
	}
	f.FooterStart = uint64(len(data) - fs)
	f.field("header.version", "byte", 4, 1, uint64(f.Version), -1, false)
	f.field("header.block_size", "u24", 5, 3, uint64(f.BlockSize), -1, false)
	f.field("header.min_update_index", "u64", 8, 8, f.Min, -1, false)
	f.field("header.max_update_index", "u64", 16, 8, f.Max, -1, false)
	foot := data[f.FooterStart:]
	if !bytes.Equal(foot[:hs], data[:hs]) {
		f.problem("footer does not repeat the header")
	}
	p := hs
	f.RefIndexOff = binary.BigEndian.Uint64(foot[p:])
	o := binary.BigEndian.Uint64(foot[p+8:])
	f.ObjOff, f.ObjIDLen = o>>5, int(o&31)
	f.ObjIndexOff = binary.BigEndian.Uint64(foot[p+16:])
	f.LogOff = binary.BigEndian.Uint64(foot[p+24:])
	f.LogIndexOff = binary.BigEndian.Uint64(foot[p+32:])
	fo := int(f.FooterStart) + p
	f.field("footer.ref_index_position", "u64", fo, 8, f.RefIndexOff, -1, false)
	f.field("footer.obj_position_and_id_len", "u64", fo+8, 8, o, -1, false)
	f.field("footer.obj_index_position", "u64", fo+16, 8, f.ObjIndexOff, -1, false)
	f.field("footer.log_position", "u64", fo+24, 8, f.LogOff, -1, false)
	f.field("footer.log_index_position", "u64", fo+32, 8, f.LogIndexOff, -1, false)
	f.field("footer.version", "byte", int(f.FooterStart)+4, 1, uint64(f.Version), -1, false)
	f.field("footer.block_size", "u24", int(f.FooterStart)+5, 3, uint64(f.BlockSize), -1, false)
	crc := binary.BigEndian.Uint32(foot[p+40:])
	if want := crc32.ChecksumIEEE(foot[:p+40]); crc != want {
		f.problem("footer CRC %08x, computed %08x", crc, want)
	}
	if f.Min > f.Max {
		f.problem("header min %d > max %d", f.Min, f.Max)
	}

	// An empty table is header immediately followed by the footer.
	pos := uint64(0)
	if uint64(hs) == f.FooterStart {
		return f, nil
	}
	for pos < f.FooterStart {
		b, next, err := f.parseBlock(data, pos)
		if err != nil {
			return f, fmt.Errorf("block at %d: %v", pos, err)
		}
		f.Blocks = append(f.Blocks, *b)
		if next <= pos {
			return f, fmt.Errorf("block at %d: no progress", pos)
		}
		pos = next
	}
	if pos != f.FooterStart {
		f.problem("last block ends at %d, footer starts at %d", pos, f.FooterStart)
	}
	return f, nil
}

func isType(c byte) bool { return c == 'r' || c == 'o' || c == 'i' || c == 'g' }

func (f *File) parseBlock(data []byte, pos uint64) (*Block, uint64, error) {
	hoff := 0 // offset of the 4-byte block header inside the block
	if pos == 0 {
		hoff = f.HeaderSize
	}
	lim := f.FooterStart
	if pos+uint64(hoff)+4 > lim {
		return nil, 0, fmt.Errorf("truncated block header")
	}
	blk := data[pos:lim]
	typ := blk[hoff]
	if !isType(typ) {
		return nil, 0, fmt.Errorf("unknown block type %q", typ)
	}
	blen := int(blk[hoff+1])<<16 | int(blk[hoff+2])<<8 | int(blk[hoff+3])
	b := &Block{Type: typ, Off: pos, Len: blen}
	bi := len(f.Blocks)
	inlog := typ == 'g'
	// file offset of a body offset (for log blocks body offsets are kept: the body is compressed in the file)
	fo := func(rel int) int {
		if inlog {
			return rel
		}
		return int(pos) + rel
	}
	f.field("block.type", "byte", int(pos)+hoff, 1, uint64(typ), bi, false)
	f.field("block.len", "u24", int(pos)+hoff+1, 3, uint64(blen), bi, false)
	if blen < hoff+4+2 {
		return nil, 0, fmt.Errorf("block_len %d too small", blen)
	}
	var body []byte // the uncompressed block from its start (incl. file header for block 0) to block_len
	if typ == 'g' {
		rd := bytes.NewReader(blk[hoff+4:])
		zr, err := zlib.NewReader(rd)
		if err != nil {
			return nil, 0, fmt.Errorf("zlib: %v", err)
		}
		out, err := io.ReadAll(zr)
		if err != nil {
			return nil, 0, fmt.Errorf("zlib: %v", err)
		}
		consumed := len(blk[hoff+4:]) - rd.Len()
		if len(out) != blen-hoff-4 {
			return nil, 0, fmt.Errorf("log block inflates to %d bytes, block_len says %d", len(out), blen-hoff-4)
		}
		body = append(append([]byte{}, blk[:hoff+4]...), out...)
		b.RawLen = hoff + 4 + consumed
	} else {
		if blen > len(blk) {
			return nil, 0, fmt.Errorf("block_len %d beyond end of data", blen)
		}
		body = blk[:blen]
		b.RawLen = blen
	}
	if f.BlockSize != 0 && typ != 'g' && uint32(blen) > f.BlockSize {
		f.problem("block at %d: block_len %d exceeds block size %d", pos, blen, f.BlockSize)
	}

	// where does the next block start?
	end := pos + uint64(b.RawLen)
	next := end
	switch {
	case end == lim:
	case end > lim:
		return nil, 0, fmt.Errorf("block overruns footer")
	case data[end] != 0:
		// unpadded
		if !isType(data[end]) {
			return nil, 0, fmt.Errorf("garbage %q after block", data[end])
		}
	default:
		// padded: zeros up to block_size bytes from the block start
		if f.BlockSize == 0 {
			return nil, 0, fmt.Errorf("zero padding in a table with block size 0")
		}
		next = pos + uint64(f.BlockSize)
		if next > lim {
			return nil, 0, fmt.Errorf("padding runs past the footer")
		}
		for i := end; i < next; i++ {
			if data[i] != 0 {
				return nil, 0, fmt.Errorf("non-zero padding byte at %d", i)
			}
		}
		if typ == 'g' {
			f.problem("block at %d: log block is padded", pos)
		}
	}
	b.Padded = int(next - pos)

	// restart table
	rc := int(binary.BigEndian.Uint16(body[len(body)-2:]))
	rstart := len(body) - 2 - 3*rc
	if rstart < hoff+4 {
		return nil, 0, fmt.Errorf("restart table (%d entries) larger than block", rc)
	}
	f.field("block.restart_count", "u16", fo(len(body)-2), 2, uint64(rc), bi, inlog)
	for i := 0; i < rc; i++ {
		r := body[rstart+3*i:]
		b.Restarts = append(b.Restarts, int(r[0])<<16|int(r[1])<<8|int(r[2]))
		if i < 4 || i == rc-1 {
			f.field("block.restart_offset", "u24", fo(rstart+3*i), 3, uint64(b.Restarts[i]), bi, inlog)
		}
	}
	if rc == 0 {
		f.problem("block at %d: restart_count 0", pos)
	}

	// records
	recs := body[:rstart]
	off := hoff + 4
	last := ""
	for off < len(recs) {
		r := Rec{Off: off}
		buf := recs[off:]
		pl, n, ok := varint(buf)
		if !ok {
			return nil, 0, fmt.Errorf("record at %d: bad prefix varint", off)
		}
		f.field("record.prefix_length", "varint", fo(off), n, pl, bi, inlog)
		buf = buf[n:]
		sv, n2, ok := varint(buf)
		if !ok {
			return nil, 0, fmt.Errorf("record at %d: bad suffix varint", off)
		}
		f.field("record.suffix_length_and_type", "varint", fo(off+n), n2, sv, bi, inlog)
		buf = buf[n2:]
		r.PrefixLen, r.SuffixLen, r.ValType = int(pl), int(sv>>3), int(sv&7)
		if r.PrefixLen > len(last) {
			return nil, 0, fmt.Errorf("record at %d: prefix %d longer than previous key", off, r.PrefixLen)
		}
		if r.SuffixLen > len(buf) {
			return nil, 0, fmt.Errorf("record at %d: suffix overruns block", off)
		}
		r.Key = last[:r.PrefixLen] + string(buf[:r.SuffixLen])
		buf = buf[r.SuffixLen:]
		var err error
		// fields of the value: recorded by the value parsers through valField (offsets relative to the value start)
		vstart := len(recs) - len(buf)
		f.valField = func(name string, rel, n int, val uint64) { f.field(name, "varint", fo(vstart+rel), n, val, bi, inlog) }
		switch typ {
		case 'r':
			buf, err = f.ref(b, r, buf)
		case 'g':
			buf, err = f.log(b, r, buf)
		case 'o':
			buf, err = f.obj(b, r, buf)
		case 'i':
			buf, err = f.idx(b, r, buf)
		}
		if err != nil {
			return nil, 0, fmt.Errorf("record at %d (%q): %v", off, r.Key, err)
		}
		b.Recs = append(b.Recs, r)
		last = r.Key
		off = len(recs) - len(buf)
	}
	return b, next, nil
}

func (f *File) ref(b *Block, r Rec, buf []byte) ([]byte, error) {
	d, n, ok := varint(buf)
	if !ok {
		return nil, fmt.Errorf("bad update_index_delta")
	}
	f.valField("ref.update_index_delta", 0, n, d)
	start := buf
	buf = buf[n:]
	ref := Ref{Name: r.Key, Idx: f.Min + d, Kind: r.ValType}
	switch r.ValType {
	case 0:
	case 1, 2:
		if len(buf) < f.HashSize*r.ValType {
			return nil, fmt.Errorf("short hash")
		}
		ref.Value = append([]byte{}, buf[:f.HashSize]...)
		buf = buf[f.HashSize:]
		if r.ValType == 2 {
			ref.Peeled = append([]byte{}, buf[:f.HashSize]...)
			buf = buf[f.HashSize:]
		}
	case 3:
		l, n, ok := varint(buf)
		if !ok || uint64(len(buf)-n) < l {
			return nil, fmt.Errorf("bad symref target")
		}
		f.valField("ref.target_length", len(start)-len(buf), n, l)
		ref.Target = string(buf[n : n+int(l)])
		buf = buf[n+int(l):]
	default:
		return nil, fmt.Errorf("ref value_type %d", r.ValType)
	}
	b.Refs = append(b.Refs, ref)
	return buf, nil
}

func str(buf []byte) (string, []byte, bool) {
	l, n, ok := varint(buf)
	if !ok || uint64(len(buf)-n) < l {
		return "", nil, false
	}
	return string(buf[n : n+int(l)]), buf[n+int(l):], true
}

func (f *File) log(b *Block, r Rec, buf []byte) ([]byte, error) {
	k := r.Key
	if len(k) < 9 || k[len(k)-9] != 0 {
		return nil, fmt.Errorf("log key is not name NUL reverse_int64")
	}
	lg := Log{Name: k[:len(k)-9], Idx: ^binary.BigEndian.Uint64([]byte(k[len(k)-8:]))}
	switch r.ValType {
	case 0:
		lg.Del = true
	case 1:
		if len(buf) < 2*f.HashSize {
			return nil, fmt.Errorf("short log hashes")
		}
		start := buf
		lg.Old = append([]byte{}, buf[:f.HashSize]...)
		lg.New = append([]byte{}, buf[f.HashSize:2*f.HashSize]...)
		buf = buf[2*f.HashSize:]
		var ok bool
		if l, n, k := varint(buf); k {
			f.valField("log.name_length", len(start)-len(buf), n, l)
		}
		if lg.User, buf, ok = str(buf); !ok {
			return nil, fmt.Errorf("bad log name")
		}
		if l, n, k := varint(buf); k {
			f.valField("log.email_length", len(start)-len(buf), n, l)
		}
		if lg.Email, buf, ok = str(buf); !ok {
			return nil, fmt.Errorf("bad log email")
		}
		t, n, ok := varint(buf)
		if !ok {
			return nil, fmt.Errorf("bad log time")
		}
		f.valField("log.time", len(start)-len(buf), n, t)
		lg.Time = t
		buf = buf[n:]
		if len(buf) < 2 {
			return nil, fmt.Errorf("short tz")
		}
		lg.TZ = int16(binary.BigEndian.Uint16(buf))
		buf = buf[2:]
		if l, n, k := varint(buf); k {
			f.valField("log.message_length", len(start)-len(buf), n, l)
		}
		if lg.Message, buf, ok = str(buf); !ok {
			return nil, fmt.Errorf("bad log message")
		}
	default:
		return nil, fmt.Errorf("log_type %d", r.ValType)
	}
	b.Logs = append(b.Logs, lg)
	return buf, nil
}

func (f *File) obj(b *Block, r Rec, buf []byte) ([]byte, error) {
	cnt := uint64(r.ValType)
	start := buf
	if cnt == 0 {
		c, n, ok := varint(buf)
		if !ok {
			return nil, fmt.Errorf("bad cnt_large")
		}
		f.valField("obj.cnt_large", 0, n, c)
		cnt = c
		buf = buf[n:]
	}
	o := Obj{Prefix: []byte(r.Key), Offsets: []uint64{}}
	var last uint64
	for i := uint64(0); i < cnt; i++ {
		d, n, ok := varint(buf)
		if !ok {
			return nil, fmt.Errorf("bad position_delta")
		}
		if i < 3 {
			f.valField("obj.position_delta", len(start)-len(buf), n, d)
		}
		buf = buf[n:]
		if i > 0 {
			d += last
		}
		o.Offsets = append(o.Offsets, d)
		last = d
	}
	b.Objs = append(b.Objs, o)
	return buf, nil
}

func (f *File) idx(b *Block, r Rec, buf []byte) ([]byte, error) {
	if r.ValType != 0 {
		return nil, fmt.Errorf("index value_type %d", r.ValType)
	}
	p, n, ok := varint(buf)
	if !ok {
		return nil, fmt.Errorf("bad block_position")
	}
	f.valField("index.block_position", 0, n, p)
	b.Idxs = append(b.Idxs, Idx{LastKey: r.Key, Off: p})
	return buf[n:], nil
}

// Records returns the refs and logs in file order (sequential decode by the
// format rules alone; indexes are not consulted).
func (f *File) Records() (refs []Ref, logs []Log) {
	for _, b := range f.Blocks {
		refs = append(refs, b.Refs...)
		logs = append(logs, b.Logs...)
	}
	return
}
