#!/usr/bin/env python3
"""keep_mutant.py <src dir> <caught_by: comma list or NONE> [note]  -- archive a confirmed seeded change under /verif/seeded/<name>/"""
import json, os, shutil, sys, subprocess
src = sys.argv[1].rstrip("/")
name = os.path.basename(src)
dst = os.path.join("/verif/seeded", name)
os.makedirs(dst, exist_ok=True)
patch = os.path.join(src, "patch.rebased.diff") if os.path.exists(os.path.join(src, "patch.rebased.diff")) else os.path.join(src, "patch.diff")
shutil.copy(patch, os.path.join(dst, "patch.diff"))
for f in os.listdir(src):
    if f.startswith("demo") or f.endswith("_test.go") or f.endswith(".go") or f.endswith(".c") or f.endswith(".sh"):
        shutil.copy(os.path.join(src, f), os.path.join(dst, f))
meta = json.load(open(os.path.join(src, "meta.json")))
head = subprocess.run(["git", "-C", "/repo", "rev-parse", "--short", "HEAD"], capture_output=True, text=True).stdout.strip()
meta["confirmed_on_repo_commit"] = head
meta["confirmed"] = "tools/verify_mutant.sh: patch applies, existing suite passes with it, demonstration fails with it and passes without it"
meta["caught_by"] = [] if sys.argv[2] == "NONE" else sys.argv[2].split(",")
if len(sys.argv) > 3:
    meta["note"] = sys.argv[3]
meta["ran"] = "tools/try_mutant.sh seeded/%s/patch.diff %s (quick tier)" % (name, " ".join(meta["caught_by"]) or meta["property"])
json.dump(meta, open(os.path.join(dst, "meta.json"), "w"), indent=1)
print("kept", dst)
