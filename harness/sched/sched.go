// Package sched is the cooperative scheduler and event recorder that the
// façade packages vos/vioutil call around every real filesystem operation.
//
// A *handle* is a goroutine started through Controller.Spawn.  Every gated
// filesystem call of a handle parks the goroutine (Gate) until the controller
// lets exactly that handle proceed (Step); the real system call is then
// executed, its outcome is appended to the event log (Done), and the handle
// runs on until its next gate or the end of its program.  Goroutines that were
// not spawned through the controller (the driver's own set-up / inspection
// code) are never gated, but their operations can be recorded too.
//
// "Crash" of a handle = it is never chosen again (its goroutine stays parked,
// deferred functions never run, descriptors stay open).
package sched

import (
	"bytes"
	"fmt"
	"path/filepath"
	"runtime"
	"strconv"
	"strings"
	"sync"
)

// Event is one line of the recorded trace.
type Event map[string]interface{}

// Pending describes the operation a parked handle is about to perform.
type Pending struct {
	Op   string // createexcl, readfile, open, tempfile, rename, remove, readdir, write, call
	Path string // alias of the (first) path
	To   string // alias of the rename target
	Done bool   // the handle's program finished (no pending operation)
}

type handle struct {
	id      int
	wake    chan struct{}
	parked  chan Pending
	crashed bool
	done    bool
	pending Pending
	fault   bool // the next gated call of this handle fails with an injected I/O error instead of being performed
}

// Controller owns one run: the handles, the alias table and the event log.
type Controller struct {
	mu      sync.Mutex
	dir     string
	handles map[int]*handle
	byGid   map[int64]*handle
	events  []Event
	alias   map[string]string
	nTab    int
	nTmp    int
	nOther  int
	seq     int
	// Decode turns the bytes of a just-closed file into the "tab" record of
	// the close event, or nil if they are not a complete table.
	Decode func(content []byte) Event
	// Quiet disables recording of fs events from unregistered goroutines.
	Quiet bool
	// Actor is the handle id under which operations of unregistered goroutines
	// (sequential set-up code of the driver) are recorded.
	Actor int
}

var (
	curMu sync.RWMutex
	cur   *Controller
)

// Install makes c the controller consulted by Gate/Done. nil uninstalls.
func Install(c *Controller) {
	curMu.Lock()
	cur = c
	curMu.Unlock()
}

func current() *Controller {
	curMu.RLock()
	defer curMu.RUnlock()
	return cur
}

// New returns a controller for a run in directory dir.
func New(dir string) *Controller {
	d, err := filepath.EvalSymlinks(dir)
	if err == nil {
		dir = d
	}
	return &Controller{
		dir:     dir,
		handles: map[int]*handle{},
		byGid:   map[int64]*handle{},
		alias:   map[string]string{},
	}
}

func gid() int64 {
	var buf [64]byte
	n := runtime.Stack(buf[:], false)
	// "goroutine 123 [running]:"
	b := buf[:n]
	b = bytes.TrimPrefix(b, []byte("goroutine "))
	i := bytes.IndexByte(b, ' ')
	if i < 0 {
		return -1
	}
	id, _ := strconv.ParseInt(string(b[:i]), 10, 64)
	return id
}

// Alias canonicalises a path inside the run directory:
//
//	tables.list -> "list", tables.list.lock -> "list.lock",
//	X.ref -> "t<k>", X.ref.lock -> "t<k>.lock", *.reftmp -> "tmp<j>",
//	the directory itself -> ".", anything else -> "x<n>:<basename>".
//
// k and j are assigned in order of first appearance.
func (c *Controller) Alias(p string) string {
	c.mu.Lock()
	defer c.mu.Unlock()
	return c.aliasLocked(p)
}

func (c *Controller) aliasLocked(p string) string {
	if p == c.dir || p == c.dir+"/" {
		return "."
	}
	base := filepath.Base(p)
	if d := filepath.Dir(p); d != c.dir {
		if dd, err := filepath.EvalSymlinks(d); err != nil || dd != c.dir {
			return "outside:" + p
		}
	}
	switch {
	case base == "tables.list":
		return "list"
	case base == "tables.list.lock":
		return "list.lock"
	}
	if a, ok := c.alias[base]; ok {
		return a
	}
	var a string
	switch {
	case strings.HasSuffix(base, ".ref.lock"):
		a = c.aliasLocked(filepath.Join(c.dir, strings.TrimSuffix(base, ".lock"))) + ".lock"
	case strings.HasSuffix(base, ".ref"):
		c.nTab++
		a = fmt.Sprintf("t%d", c.nTab)
	case strings.HasSuffix(base, ".reftmp"):
		c.nTmp++
		a = fmt.Sprintf("tmp%d", c.nTmp)
	default:
		c.nOther++
		a = fmt.Sprintf("x%d:%s", c.nOther, base)
	}
	c.alias[base] = a
	return a
}

// AliasName is Alias for a bare file name (as found in tables.list / String()).
func (c *Controller) AliasName(name string) string {
	return c.Alias(filepath.Join(c.dir, name))
}

// Real returns the real base name for an alias ("" if unknown).
func (c *Controller) Real(alias string) string {
	c.mu.Lock()
	defer c.mu.Unlock()
	for k, v := range c.alias {
		if v == alias {
			return k
		}
	}
	return ""
}

// Spawn starts prog as handle id. The goroutine parks immediately at a
// pseudo-gate {Op:"start"} so that nothing runs before the first Step.
func (c *Controller) Spawn(id int, prog func()) {
	h := &handle{id: id, wake: make(chan struct{}), parked: make(chan Pending)}
	c.mu.Lock()
	c.handles[id] = h
	c.mu.Unlock()
	ready := make(chan struct{})
	go func() {
		g := gid()
		c.mu.Lock()
		c.byGid[g] = h
		c.mu.Unlock()
		close(ready)
		h.parked <- Pending{Op: "start"}
		<-h.wake
		prog()
		h.parked <- Pending{Done: true}
	}()
	<-ready
	h.pending = <-h.parked
}

func (c *Controller) me() *handle {
	g := gid()
	c.mu.Lock()
	h := c.byGid[g]
	c.mu.Unlock()
	return h
}

// Me returns the id of the calling handle, or 0 for an unregistered goroutine.
func Me() int {
	c := current()
	if c == nil {
		return 0
	}
	if h := c.me(); h != nil {
		return h.id
	}
	return 0
}

// AliasNameCur aliases a bare table name on the installed controller.
func AliasNameCur(name string) string {
	c := current()
	if c == nil {
		return name
	}
	return c.AliasName(name)
}

// SealInfo asks the installed controller's decoder what a just-closed file
// holds: {"sealed": bool, "tab": {...}}.
func SealInfo(content []byte) Event {
	c := current()
	if c == nil || c.Decode == nil || content == nil {
		return Event{"sealed": false}
	}
	if tab := c.Decode(content); tab != nil {
		return Event{"sealed": true, "tab": tab}
	}
	return Event{"sealed": false}
}

// PathKind classifies an alias.
func PathKind(alias string) string {
	switch {
	case alias == "list":
		return "list"
	case alias == "list.lock":
		return "listlock"
	case strings.HasPrefix(alias, "tmp"):
		return "tmp"
	case strings.HasPrefix(alias, "t") && strings.HasSuffix(alias, ".lock"):
		return "tablock"
	case strings.HasPrefix(alias, "t"):
		return "tab"
	}
	return "other"
}

// InjectNext arms a fault for handle id: the call it is parked at is not performed, the façade
// returns an I/O error for it (a transient EIO / EMFILE / ENOSPC as seen by one process).
func (c *Controller) InjectNext(id int) {
	if h := c.handles[id]; h != nil {
		h.fault = true
	}
}

// Gate is called by the façades before a filesystem operation.  It reports whether the
// controller wants the call to fail with an injected error instead of being performed.
func Gate(op, path, to string) bool {
	c := current()
	if c == nil {
		return false
	}
	h := c.me()
	if h == nil {
		return false
	}
	p := Pending{Op: op}
	if path != "" {
		p.Path = c.Alias(path)
	}
	if to != "" {
		p.To = c.Alias(to)
	}
	h.parked <- p
	<-h.wake
	f := h.fault
	h.fault = false
	return f
}

// Done is called by the façades after the operation returned.
func Done(op, path, to, result string, extra Event) {
	c := current()
	if c == nil {
		return
	}
	h := c.me()
	id := c.Actor
	if h != nil {
		id = h.id
	} else if c.Quiet {
		return
	}
	a := c.Alias(path)
	ev := Event{"ev": "fs", "h": id, "op": op, "path": a, "pk": PathKind(a), "res": result}
	if to != "" {
		ev["to"] = c.Alias(to)
		ev["pk2"] = PathKind(c.Alias(to))
	}
	for k, v := range extra {
		ev[k] = v
	}
	c.Log(ev)
}

// Log appends an event (adds the global sequence number).
func (c *Controller) Log(ev Event) {
	c.mu.Lock()
	c.seq++
	ev["seq"] = c.seq
	c.events = append(c.events, ev)
	c.mu.Unlock()
}

// LogCur logs on the installed controller, tagging the calling handle.
func LogCur(ev Event) {
	c := current()
	if c == nil {
		return
	}
	if _, ok := ev["h"]; !ok {
		ev["h"] = Me()
	}
	c.Log(ev)
}

// Events returns the log so far.
func (c *Controller) Events() []Event {
	c.mu.Lock()
	defer c.mu.Unlock()
	return append([]Event(nil), c.events...)
}

// Pending returns what handle id is parked at.
func (c *Controller) Pending(id int) Pending {
	h := c.handles[id]
	if h == nil || h.done {
		return Pending{Done: true}
	}
	return h.pending
}

// Runnable lists handles that are parked at a gate and not crashed/finished.
func (c *Controller) Runnable() []int {
	var ids []int
	for id, h := range c.handles {
		if !h.done && !h.crashed {
			ids = append(ids, id)
		}
	}
	// deterministic order
	for i := 1; i < len(ids); i++ {
		for j := i; j > 0 && ids[j-1] > ids[j]; j-- {
			ids[j-1], ids[j] = ids[j], ids[j-1]
		}
	}
	return ids
}

// Step lets handle id perform its pending operation and run to its next gate
// (or the end of its program). It returns the new pending operation.
func (c *Controller) Step(id int) Pending {
	h := c.handles[id]
	if h == nil || h.done || h.crashed {
		return Pending{Done: true}
	}
	h.wake <- struct{}{}
	p := <-h.parked
	h.pending = p
	if p.Done {
		h.done = true
	}
	return p
}

// Crash marks the handle as killed: it will never run again.
func (c *Controller) Crash(id int) {
	if h := c.handles[id]; h != nil && !h.done {
		h.crashed = true
		c.Log(Event{"ev": "crash", "h": id})
	}
}

// Crashed reports whether the handle was crashed.
func (c *Controller) Crashed(id int) bool {
	h := c.handles[id]
	return h != nil && h.crashed
}

// Finished reports whether the handle's program ran to completion.
func (c *Controller) Finished(id int) bool {
	h := c.handles[id]
	return h == nil || h.done
}
