--------------------------- MODULE TraceCompaction ---------------------------
(***************************************************************************)
(* Binding of Compaction.tla to the code:                                  *)
(*   "vec"  events: the real suggestCompactionSegment evaluated on a size  *)
(*          vector (and on the same vector scaled by powers of two, which  *)
(*          must not change the answer) - it must be Suggest(sizes);       *)
(*   "step" events: one Add of a real single-writer workload: the size     *)
(*          vector before auto-compaction, the stack depth before/after,   *)
(*          the cumulative number of entries written by compaction;        *)
(*   "staleauto" events: AutoCompact through a handle that is out of date. *)
(***************************************************************************)
EXTENDS Compaction, Json

CONSTANT TraceFile
Traces == JsonDeserialize(TraceFile)
VARIABLES tr, l, fails
vars == <<tr, l, fails>>
Ev == Traces[tr].events
E == Ev[l]

TInit == tr \in 1..Len(Traces) /\ l = 1 /\ fails = {}
Fail(c, name) == IF c THEN {} ELSE {name}
CeilLog2(k) == IF k <= 1 THEN 0 ELSE Log2(k - 1) + 1

TVec ==
  /\ l <= Len(Ev) /\ E.op = "vec"
  /\ LET s == Suggest(E.sizes) IN
     fails' = Fail(\A r \in Range(E.results) : r = s, "C17_SuggestEqualsSpec")
        \cup Fail(ValidRange(E.sizes, s) /\ NothingIffNoPair(E.sizes, s), "C17_SpecGuarantees")
  /\ l' = l + 1 /\ UNCHANGED tr

TStep ==
  /\ l <= Len(Ev) /\ E.op = "step"
  /\ LET s == Suggest(E.sizes)
         depth == Len(E.sizes)
         expAfter == IF s = None THEN depth ELSE depth - (s.end - s.start) + 1 IN
     fails' = Fail(E.res = "ok", "C17_AddFailed")
        \cup Fail(~E.split \/ E.after = expAfter \/ (E.emptied /\ E.after = expAfter - 1), "C17_RangeIsSuggested")
        \cup Fail(~E.split \/ s = None \/ E.after < depth, "C17_Progress")
        \cup Fail(E.n < 2 \/ ~E.uniform \/ (E.after < 28 /\ Pow2(E.after) <= E.n * E.n), "C17_Shallow")
        \cup Fail(E.n < 2 \/ ~E.uniform \/ E.written <= E.n * CeilLog2(E.n) * E.per, "C17_RewriteBound")
  /\ l' = l + 1 /\ UNCHANGED tr

(* AutoCompact through a second handle whose view is out of date: the range it would pick was chosen for sizes that are no     *)
(* longer there, so nothing may be merged (and the call does not fail)                                                         *)
TStaleAuto ==
  /\ l <= Len(Ev) /\ E.op = "staleauto"
  /\ fails' = Fail(E.res = "ok", "C17_StaleAutoCompact") \cup Fail(~E.stale \/ ~E.changed, "C17_StaleAutoCompact")
  /\ l' = l + 1 /\ UNCHANGED tr

TDone == l > Len(Ev) /\ UNCHANGED vars
TSpec == TInit /\ [][TVec \/ TStep \/ TStaleAuto \/ TDone]_vars
T_All == fails = {} \/ (PrintT(<<"VIOL", fails, Traces[tr].id, l - 1>>) /\ FALSE)
=============================================================================
