SPECIFICATION Spec
CONSTANTS
  Handles = {1, 2}
  MaxOps = 2
  MaxIds = 6
  InitN = 2
  OpKinds = {"add", "compactall", "reload"}
  CrashOn = FALSE
  FixRelockOwner = TRUE
  FixRebase = TRUE
  FixTmpCleanup = TRUE
  FixReuseClose = TRUE
VIEW view
CHECK_DEADLOCK FALSE
INVARIANTS
  C04_NoLostNoPhantom
  C04_AckIffCommitted
  C04_OneAtATime
  C04_OnlyLockFailures
  C04_CommitOrder
  C05_ListIntegrity
  C05_NoGc
  C06_Atomic
  C08_OwnerOnly
  C08_LockMutex
  C09_StaleNeverCommits
  C10_Snapshot
  C16_IdleOwnsNothing
  C16_QuiescentDir
  C16_GcSucceeds
